package c26

// The engine executes one case: real goroutines hammer one fresh symbol table,
// every return value is recorded per goroutine, and the recorded history is
// checked afterwards.  It only ever runs inside the child process (see
// child_test.go), because the expected symptoms of a broken locking discipline
// include Go fatal errors ("concurrent map writes") that kill the process.

import (
	"encoding/hex"
	"fmt"
	"runtime"
	"strconv"
	"strings"
	"sync"
	"sync/atomic"
	"time"

	"github.com/elk-language/elk/value"
)

// Name describes one symbol name exactly (JSON strings cannot carry invalid
// UTF-8, hence the hex form): strings.Repeat(S or X, max(Rep,1)) + Tail.
type Name struct {
	S    string `json:"s,omitempty"`
	X    string `json:"x,omitempty"` // hex bytes, used instead of S when non-empty
	Rep  int    `json:"rep,omitempty"`
	Tail string `json:"tail,omitempty"`
}

func (n Name) Build() string {
	base := n.S
	if n.X != "" {
		b, err := hex.DecodeString(n.X)
		if err == nil {
			base = string(b)
		}
	}
	r := n.Rep
	if r < 1 {
		r = 1
	}
	if r > 20000 {
		r = 20000
	}
	return strings.Repeat(base, r) + n.Tail
}

// Op kinds:
//
//	add i     Add(names[i])                       (global mode: value.ToSymbol)
//	rt i      s := Add(names[i]); GetName(s)      (global mode: ToSymbol; s.String())
//	get i     Get(names[i])
//	exists i  Exists(names[i])
//	gn id     GetName(Symbol(id)) with a raw id (may be negative / out of range)
//	sync      rendezvous of ALL goroutines: the k-th sync of every goroutine is the
//	          same barrier; a goroutine with fewer syncs than the maximum performs
//	          the missing ones at the end of its list
type Op struct {
	K string `json:"k"`
	N int    `json:"n,omitempty"`
}

// Case: every goroutine executes its operation list Gens times ("generations").
// In generation g > 0 the name index i stands for names[i] + "\x1e" + itoa(g) and
// a raw id >= 0 for id + g*len(names), so that a long run keeps interning NEW
// names while the case stays small.  Without sync ops the goroutines run freely
// through the generations and chase each other over fresh names for a long
// time, which is what produces real overlap on a loaded machine.
type Case struct {
	Presize int    `json:"presize"` // value.SYMBOL_TABLE_INITIAL_SIZE for the fresh table
	Global  bool   `json:"global"`  // install the fresh table as value.SymbolTable and go through ToSymbol / Symbol.String
	Names   []Name `json:"names"`   // pool of pairwise distinct names
	Pre     []int  `json:"pre"`     // name indices added sequentially before the goroutines start
	Threads [][]Op `json:"threads"` // one operation list per goroutine
	Gens    int    `json:"gens"`    // generations (>= 1)
	Seed    uint64 `json:"seed"`    // seeds the Gosched/spin perturbation between operations
}

// Bounds on the work of one run; gens() clamps the generations of a case to
// them (a pure function of the case and of the build: the race-instrumented
// build is ~10x slower and gets shorter runs).
const (
	maxTotalOps  = 60000
	maxRaceOps   = 5000
	maxNameBytes = 2 << 20
)

func (c Case) gens() int {
	g := c.Gens
	if g < 1 {
		return 1
	}
	ops, bytes := 0, 0
	for _, th := range c.Threads {
		ops += len(th)
	}
	for _, n := range c.Names {
		r := n.Rep
		if r < 1 {
			r = 1
		}
		bytes += r*(len(n.S)+len(n.X)/2) + len(n.Tail) + 8
	}
	lim := maxTotalOps
	if raceBuild {
		lim = maxRaceOps
	}
	if ops > 0 && g*ops > lim {
		g = lim / ops
	}
	if bytes > 0 && g*bytes > maxNameBytes {
		g = maxNameBytes / bytes
	}
	if g < 1 {
		g = 1
	}
	return g
}

// universe of names: every distinct string that generation g of name i can stand for
type universe struct {
	names []string
	uid   [][]int // uid[gen][i]
}

func buildUniverse(c Case, base []string) *universe {
	u := &universe{}
	idx := map[string]int{}
	for g := 0; g < c.gens(); g++ {
		row := make([]int, len(base))
		for i, b := range base {
			s := b
			if g > 0 {
				s = b + "\x1e" + strconv.Itoa(g)
			}
			id, ok := idx[s]
			if !ok {
				id = len(u.names)
				idx[s] = id
				u.names = append(u.names, s)
			}
			row[i] = id
		}
		u.uid = append(u.uid, row)
	}
	return u
}

type rec struct {
	k      byte // 'a' add, 'r' rt, 'g' get, 'e' exists, 'n' gn
	ok     bool
	u      int32 // universe index of the name; for gn the raw id used
	phase  int32
	sym    int
	name   string
	t0, t1 int64
}

type runStats struct {
	Overlap bool // two goroutines were measurably inside Add of the same not-yet-present name at the same time
}

func splitmix(x *uint64) uint64 {
	*x += 0x9e3779b97f4a7c15
	z := *x
	z = (z ^ (z >> 30)) * 0xbf58476d1ce4e5b9
	z = (z ^ (z >> 27)) * 0x94d049bb133111eb
	return z ^ (z >> 31)
}

var spinSink atomic.Uint64

type barrier struct {
	need    int32
	arrived []atomic.Int32
	ch      []chan struct{} // closed by the last arriver
	abortCh chan struct{}
	once    sync.Once
}

func newBarrier(n int, need int) *barrier {
	b := &barrier{need: int32(need), arrived: make([]atomic.Int32, n), ch: make([]chan struct{}, n), abortCh: make(chan struct{})}
	for i := range b.ch {
		b.ch[i] = make(chan struct{})
	}
	return b
}

func (b *barrier) abort() { b.once.Do(func() { close(b.abortCh) }) }

// wait: short spin (goroutines that are really running in parallel leave within
// nanoseconds of each other), then block.
func (b *barrier) wait(k int) bool {
	if b.arrived[k].Add(1) == b.need {
		close(b.ch[k])
		return true
	}
	for i := 0; i < 300; i++ {
		if b.arrived[k].Load() >= b.need {
			return true
		}
	}
	select {
	case <-b.ch[k]:
		return true
	case <-b.abortCh:
		return false
	}
}

func syncCount(ops []Op) int {
	n := 0
	for _, o := range ops {
		if o.K == "sync" {
			n++
		}
	}
	return n
}

func maxSyncs(c Case) int {
	m := 0
	for _, th := range c.Threads {
		if s := syncCount(th); s > m {
			m = s
		}
	}
	return m
}

// validate rejects malformed cases (hand-edited replay files); the generator
// only produces valid ones.
func validate(c Case, names []string) error {
	if len(c.Threads) < 1 || len(c.Threads) > 64 {
		return fmt.Errorf("bad case: %d threads", len(c.Threads))
	}
	seen := map[string]bool{}
	for _, n := range names {
		if seen[n] {
			return fmt.Errorf("bad case: duplicate name %q in pool", n)
		}
		seen[n] = true
	}
	for _, i := range c.Pre {
		if i < 0 || i >= len(names) {
			return fmt.Errorf("bad case: pre index %d", i)
		}
	}
	for _, th := range c.Threads {
		for _, o := range th {
			switch o.K {
			case "add", "rt", "get", "exists":
				if o.N < 0 || o.N >= len(names) {
					return fmt.Errorf("bad case: name index %d", o.N)
				}
			case "gn", "sync":
			default:
				return fmt.Errorf("bad case: op %q", o.K)
			}
		}
	}
	return nil
}

// runOnce executes the case once on a fresh table and checks the history.
func runOnce(c Case, u *universe, run int, st *runStats) error {
	value.SYMBOL_TABLE_INITIAL_SIZE = c.Presize
	tbl := value.NewSymbolTable()
	if c.Global {
		saved := value.SymbolTable
		value.SymbolTable = tbl
		defer func() { value.SymbolTable = saved }()
	}
	add := func(n string) value.Symbol {
		if c.Global {
			return value.ToSymbol(n)
		}
		return tbl.Add(n)
	}
	names := u.names

	// sequential prefix (generation 0 names)
	preSym := map[int]int{}
	for _, i := range c.Pre {
		ui := u.uid[0][i]
		s := int(add(names[ui]))
		if old, ok := preSym[ui]; ok {
			if old != s {
				return fmt.Errorf("sequential: Add(%s) returned %d and later %d", shortQ(names[ui]), old, s)
			}
			continue
		}
		if s != len(preSym) {
			return fmt.Errorf("sequential: Add(%s) as distinct name #%d of a fresh table returned symbol %d, want %d", shortQ(names[ui]), len(preSym), s, len(preSym))
		}
		preSym[ui] = s
	}

	g := len(c.Threads)
	gens := c.gens()
	maxSync := maxSyncs(c)
	nn := len(c.Names)
	// barrier 0 is the start line; then maxSync barriers per generation
	b := newBarrier(1+gens*maxSync, g)

	hist := make([][]rec, g)
	panics := make([]string, g)
	var wg sync.WaitGroup
	for gi := range c.Threads {
		wg.Add(1)
		go func(gi int) {
			defer wg.Done()
			defer func() {
				if r := recover(); r != nil {
					panics[gi] = fmt.Sprint(r)
					b.abort()
				}
			}()
			ops := c.Threads[gi]
			own := syncCount(ops)
			out := make([]rec, 0, (len(ops)-own)*gens)
			defer func() { hist[gi] = out }()
			rng := c.Seed ^ uint64(gi+1)*0x9e3779b97f4a7c15 ^ uint64(run+1)*0xd1342543de82ef95
			phase := 0
			if !b.wait(0) {
				return
			}
			for gen := 0; gen < gens; gen++ {
				uid := u.uid[gen]
				for _, o := range ops {
					if o.K == "sync" {
						if !b.wait(phase + 1) {
							return
						}
						phase++
						continue
					}
					// seeded perturbation of the interleaving
					switch r := splitmix(&rng); r & 15 {
					case 0:
						runtime.Gosched()
					case 1:
						runtime.Gosched()
						runtime.Gosched()
					case 2, 3:
						var acc uint64
						for i := uint64(0); i < (r>>8)%300; i++ {
							acc += i * r
						}
						if acc == 42 {
							spinSink.Add(1)
						}
					}
					r := rec{phase: int32(phase)}
					switch o.K {
					case "add":
						r.k, r.u = 'a', int32(uid[o.N])
						r.t0 = nanotime()
						r.sym = int(add(names[r.u]))
						r.t1 = nanotime()
					case "rt":
						r.k, r.u = 'r', int32(uid[o.N])
						r.t0 = nanotime()
						s := add(names[r.u])
						r.t1 = nanotime()
						r.sym = int(s)
						if c.Global {
							r.name, r.ok = s.String(), true // panics when the symbol has no name
						} else {
							r.name, r.ok = tbl.GetName(s)
						}
					case "get":
						r.k, r.u = 'g', int32(uid[o.N])
						s, ok := tbl.Get(names[r.u])
						r.sym, r.ok = int(s), ok
					case "exists":
						r.k, r.u = 'e', int32(uid[o.N])
						r.ok = tbl.Exists(names[r.u])
					case "gn":
						id := o.N
						if id >= 0 {
							id += gen * nn
						}
						r.k, r.u = 'n', int32(id)
						r.name, r.ok = tbl.GetName(value.Symbol(id))
					}
					out = append(out, r)
				}
				for k := own; k < maxSync; k++ { // missing syncs are performed at the end
					if !b.wait(phase + 1) {
						return
					}
					phase++
				}
			}
		}(gi)
	}
	wg.Wait()
	for gi, p := range panics {
		if p != "" {
			return fmt.Errorf("goroutine %d panicked: %s", gi, p)
		}
	}
	return checkHistory(c, u, tbl, preSym, hist, st)
}

var t0wall = time.Now()

func nanotime() int64 { return int64(time.Since(t0wall)) }

const inf = int(^uint(0) >> 1)
const unknown = -int(^uint(0)>>1) - 1

type addInfo struct {
	g, pos int32
	phase  int32
}

// Every goroutine passes every barrier, so an operation in phase p of one
// goroutine happens before every operation in a phase > p of any goroutine;
// within a goroutine, program order.  Nothing else is assumed about the
// interleaving.
func checkHistory(c Case, u *universe, tbl *value.SymbolTableStruct, preSym map[int]int, hist [][]rec, st *runStats) error {
	names := u.names
	idx := make(map[string]int, len(names))
	for i, n := range names {
		idx[n] = i
	}
	q := func(i int) string { return shortQ(names[i]) }

	// 1. same name => same symbol, over every return value of every goroutine
	sym := make([]int, len(names))
	for i := range sym {
		sym[i] = unknown
	}
	isPre := make([]bool, len(names))
	for i, s := range preSym {
		sym[i] = s
		isPre[i] = true
	}
	adds := make([][]addInfo, len(names))
	maxPhase := 0
	for g, h := range hist {
		for pos := range h {
			r := &h[pos]
			if int(r.phase) > maxPhase {
				maxPhase = int(r.phase)
			}
			var what string
			switch r.k {
			case 'a', 'r':
				what = "Add"
				adds[r.u] = append(adds[r.u], addInfo{int32(g), int32(pos), r.phase})
			case 'g':
				if !r.ok {
					continue
				}
				what = "Get"
			default:
				continue
			}
			i := int(r.u)
			if sym[i] != unknown && sym[i] != r.sym {
				return fmt.Errorf("same name, different symbols: %s(%s) in goroutine %d (op %d) returned symbol %d, another call returned %d", what, q(i), g, pos, r.sym, sym[i])
			}
			sym[i] = r.sym
		}
	}
	n := 0 // number of distinct names ever added
	for i := range names {
		if sym[i] != unknown {
			n++
		}
	}

	// 2. distinct names => distinct symbols; ids dense 0..n-1
	byId := make(map[int]int, n)
	for i, s := range sym {
		if s == unknown {
			continue
		}
		if len(adds[i]) == 0 && !isPre[i] {
			return fmt.Errorf("Get(%s) succeeded with symbol %d although the name is never added", q(i), s)
		}
		if j, dup := byId[s]; dup {
			return fmt.Errorf("distinct names, same symbol: %s and %s both map to symbol %d", q(j), q(i), s)
		}
		byId[s] = i
		if s < 0 || s >= n {
			return fmt.Errorf("symbol ids not dense: %s has symbol %d, but only %d distinct names were ever added to the fresh table", q(i), s, n)
		}
	}

	// first phase in which an Add of the name is issued by anybody; phaseMax[p] =
	// largest symbol observed by any operation in a phase < p
	firstAdd := make([]int, len(names))
	for i := range firstAdd {
		firstAdd[i] = inf
		if isPre[i] {
			firstAdd[i] = -1
		}
		for _, a := range adds[i] {
			if int(a.phase) < firstAdd[i] {
				firstAdd[i] = int(a.phase)
			}
		}
	}
	phaseMax := make([]int, maxPhase+2)
	for p := range phaseMax {
		phaseMax[p] = -1
	}
	for g := range hist {
		for pos := range hist[g] {
			r := &hist[g][pos]
			s := -1
			switch r.k {
			case 'a', 'r':
				s = r.sym
			case 'g':
				if r.ok {
					s = r.sym
				}
			case 'n':
				if r.ok {
					s = int(r.u)
				}
			}
			if s > phaseMax[r.phase+1] {
				phaseMax[r.phase+1] = s
			}
		}
	}
	phaseMax[0] = len(preSym) - 1
	for p := 1; p < len(phaseMax); p++ {
		if phaseMax[p-1] > phaseMax[p] {
			phaseMax[p] = phaseMax[p-1]
		}
	}

	// 3. per-operation checks in program order of each goroutine
	for g, h := range hist {
		known := map[int]bool{} // names this goroutine has itself added or seen present
		ownAdd := map[int]bool{}
		ownMax := -1
		for pos := range h {
			r := &h[pos]
			i := int(r.u)
			phase := int(r.phase)
			// an Add of the name returned before this operation started
			mustPresent := func() bool { return known[i] || firstAdd[i] < phase }
			// no Add of the name can have started before this operation returned
			mustAbsent := func() bool {
				if isPre[i] || ownAdd[i] {
					return false
				}
				for _, a := range adds[i] {
					if int(a.g) != g && int(a.phase) <= phase {
						return false
					}
				}
				return true
			}
			where := func() string { return fmt.Sprintf("goroutine %d op %d (phase %d)", g, pos, phase) }
			switch r.k {
			case 'a':
				known[i], ownAdd[i] = true, true
				if r.sym > ownMax {
					ownMax = r.sym
				}
			case 'r':
				known[i], ownAdd[i] = true, true
				if r.sym > ownMax {
					ownMax = r.sym
				}
				if !r.ok {
					return fmt.Errorf("%s: GetName(Add(%s)) = (_, false): symbol %d returned by Add has no name", where(), q(i), r.sym)
				}
				if r.name != names[i] {
					return fmt.Errorf("%s: GetName(Add(%s)) = %s, symbol %d", where(), q(i), shortQ(r.name), r.sym)
				}
			case 'g':
				if r.ok {
					if mustAbsent() {
						return fmt.Errorf("%s: Get(%s) succeeded (symbol %d) before any Add of that name could have started", where(), q(i), r.sym)
					}
					known[i] = true
					if r.sym > ownMax {
						ownMax = r.sym
					}
				} else {
					if r.sym != -1 {
						return fmt.Errorf("%s: failed Get(%s) returned symbol %d, want -1", where(), q(i), r.sym)
					}
					if mustPresent() {
						return fmt.Errorf("%s: Get(%s) failed although an Add of that name had returned before (symbol %d)", where(), q(i), sym[i])
					}
				}
			case 'e':
				if r.ok {
					if mustAbsent() {
						return fmt.Errorf("%s: Exists(%s) = true before any Add of that name could have started", where(), q(i))
					}
					known[i] = true
				} else if mustPresent() {
					return fmt.Errorf("%s: Exists(%s) = false although an Add of that name had returned before", where(), q(i))
				}
			case 'n':
				id := i
				if r.ok {
					j, inPool := idx[r.name]
					if !inPool {
						return fmt.Errorf("%s: GetName(%d) = %s, a name nobody added", where(), id, shortQ(r.name))
					}
					if sym[j] != id {
						return fmt.Errorf("%s: GetName(%d) = %s, but that name has symbol %d (%d = never added)", where(), id, shortQ(r.name), sym[j], unknown)
					}
					if id > ownMax {
						ownMax = id
					}
				} else {
					if r.name != "" {
						return fmt.Errorf("%s: failed GetName(%d) returned name %s, want \"\"", where(), id, shortQ(r.name))
					}
					if id >= 0 && (id <= ownMax || id <= phaseMax[phase]) {
						return fmt.Errorf("%s: GetName(%d) failed although a symbol >= %d had been returned before (ids are dense)", where(), id, id)
					}
				}
			}
		}
	}

	// 4. quiescent state, single goroutine (ExistsId is not documented thread-safe)
	for i := range names {
		s := sym[i]
		gs, gok := tbl.Get(names[i])
		ex := tbl.Exists(names[i])
		if s == unknown {
			if gok || gs != -1 || ex {
				return fmt.Errorf("final: name %s was never added but Get = (%d, %v), Exists = %v", q(i), gs, gok, ex)
			}
			continue
		}
		if !gok || int(gs) != s || !ex {
			return fmt.Errorf("final: Get(%s) = (%d, %v), Exists = %v; the concurrent calls returned symbol %d", q(i), gs, gok, ex, s)
		}
		if nm, ok := tbl.GetName(value.Symbol(s)); !ok || nm != names[i] {
			return fmt.Errorf("final: GetName(%d) = (%s, %v), want %s", s, shortQ(nm), ok, q(i))
		}
		var again value.Symbol
		if c.Global {
			again = value.ToSymbol(names[i])
			if str := again.String(); str != names[i] {
				return fmt.Errorf("final: ToSymbol(%s).String() = %s", q(i), shortQ(str))
			}
		} else {
			again = tbl.Add(names[i])
		}
		if int(again) != s {
			return fmt.Errorf("final: a later Add(%s) returned symbol %d, earlier calls returned %d", q(i), again, s)
		}
		if !tbl.ExistsId(value.Symbol(s)) {
			return fmt.Errorf("final: ExistsId(%d) = false for the symbol of %s", s, q(i))
		}
	}
	for id := 0; id < n; id++ {
		nm, ok := tbl.GetName(value.Symbol(id))
		if !ok {
			return fmt.Errorf("final: GetName(%d) failed, %d distinct names were added", id, n)
		}
		if gs, gok := tbl.Get(nm); !gok || int(gs) != id {
			return fmt.Errorf("final: id %d has name %s but Get of that name = (%d, %v): the id table and the name table disagree", id, shortQ(nm), gs, gok)
		}
	}
	for _, id := range []int{n, n + 1, -1, -2} {
		if nm, ok := tbl.GetName(value.Symbol(id)); ok || nm != "" {
			return fmt.Errorf("final: GetName(%d) = (%s, %v) but only %d names were added", id, shortQ(nm), ok, n)
		}
		if tbl.ExistsId(value.Symbol(id)) {
			return fmt.Errorf("final: ExistsId(%d) = true but only %d names were added", id, n)
		}
	}
	fresh := "\x00c26-fresh"
	for {
		if _, clash := idx[fresh]; !clash {
			break
		}
		fresh += "'"
	}
	if s := tbl.Add(fresh); int(s) != n {
		return fmt.Errorf("final: Add of a new name after %d distinct names returned symbol %d", n, s)
	}

	// measurement only: did two goroutines overlap inside Add of the same new name?
	for i, as := range adds {
		if isPre[i] || len(as) < 2 {
			continue
		}
		// earliest completion among the Adds of this name: calls that started before it raced for the insert
		first := int64(1<<63 - 1)
		for _, a := range as {
			if t := hist[a.g][a.pos].t1; t < first {
				first = t
			}
		}
		cnt := 0
		for _, a := range as {
			if hist[a.g][a.pos].t0 < first {
				cnt++
			}
		}
		if cnt >= 2 {
			st.Overlap = true
			break
		}
	}
	return nil
}

func shortQ(s string) string {
	if len(s) > 48 {
		return fmt.Sprintf("%q…(%d bytes)", s[:40], len(s))
	}
	return fmt.Sprintf("%q", s)
}
