//go:build race

package c26

import "runtime"

const raceBuild = true

// raceErrors is the number of data-race reports printed by the race detector
// of this process so far (runtime.RaceErrors exists only in -race builds).
func raceErrors() int { return runtime.RaceErrors() }
