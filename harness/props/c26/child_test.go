package c26

// Parent/child protocol.  The parent (rapid process) sends one JSON request per
// line to a persistent child (the same test binary re-executed with
// C26_CHILD=1); the child runs the case Reps times and answers one JSON line.
// A child that dies (Go fatal error such as "concurrent map writes", deadlock)
// or reports a data race (race-built binary) is turned into an ordinary oracle
// failure of the case in flight, so rapid can shrink it, and is restarted.

import (
	"bufio"
	"bytes"
	"encoding/json"
	"fmt"
	"io"
	"os"
	"os/exec"
	"strings"
	"sync"
	"time"
)

type request struct {
	Case Case `json:"case"`
	Reps int  `json:"reps"`
}

type response struct {
	Err     string `json:"err,omitempty"`
	Bad     string `json:"bad,omitempty"` // malformed case (not a finding)
	Races   int    `json:"races,omitempty"`
	Overlap int    `json:"overlap,omitempty"` // runs in which two Adds of the same new name overlapped
	Runs    int    `json:"runs"`
}

// ---- child side -----------------------------------------------------------

func childMain() {
	in := bufio.NewReaderSize(os.Stdin, 1<<20)
	out := bufio.NewWriter(os.Stdout)
	for {
		line, err := in.ReadBytes('\n')
		if len(line) > 0 {
			var rq request
			var rs response
			if e := json.Unmarshal(line, &rq); e != nil {
				rs.Bad = "cannot decode request: " + e.Error()
			} else {
				rs = serve(rq)
			}
			b, _ := json.Marshal(&rs)
			out.Write(b)
			out.WriteByte('\n')
			out.Flush()
		}
		if err != nil {
			return
		}
	}
}

func serve(rq request) (rs response) {
	c := rq.Case
	names := make([]string, len(c.Names))
	for i, n := range c.Names {
		names[i] = n.Build()
	}
	if err := validate(c, names); err != nil {
		rs.Bad = err.Error()
		return
	}
	u := buildUniverse(c, names)
	before := raceErrors()
	for run := 0; run < rq.Reps; run++ {
		var st runStats
		err := runOnce(c, u, run, &st)
		rs.Runs++
		if st.Overlap {
			rs.Overlap++
		}
		if err != nil {
			rs.Err = fmt.Sprintf("run %d: %v", run, err)
			break
		}
		if raceErrors() > before {
			break
		}
	}
	rs.Races = raceErrors() - before
	return
}

// ---- parent side ----------------------------------------------------------

type tailBuf struct {
	mu sync.Mutex
	b  []byte
}

func (t *tailBuf) Write(p []byte) (int, error) {
	t.mu.Lock()
	t.b = append(t.b, p...)
	if len(t.b) > 64<<10 {
		t.b = append([]byte(nil), t.b[len(t.b)-32<<10:]...)
	}
	t.mu.Unlock()
	return len(p), nil
}

func (t *tailBuf) String() string {
	t.mu.Lock()
	defer t.mu.Unlock()
	return string(t.b)
}

type child struct {
	bin    string
	cmd    *exec.Cmd
	in     io.WriteCloser
	out    *bufio.Reader
	stderr *tailBuf
	done   chan struct{} // stderr fully drained
}

func (c *child) start() error {
	cmd := exec.Command(c.bin)
	cmd.Env = append(os.Environ(), "C26_CHILD=1", "VERIF_EVIDENCE_OUT=", "VERIF_JOURNAL=")
	in, err := cmd.StdinPipe()
	if err != nil {
		return err
	}
	outp, err := cmd.StdoutPipe()
	if err != nil {
		return err
	}
	errp, err := cmd.StderrPipe()
	if err != nil {
		return err
	}
	if err := cmd.Start(); err != nil {
		return err
	}
	c.cmd, c.in, c.out = cmd, in, bufio.NewReaderSize(outp, 1<<20)
	c.stderr = &tailBuf{}
	c.done = make(chan struct{})
	go func(tb *tailBuf, done chan struct{}) {
		io.Copy(tb, errp)
		close(done)
	}(c.stderr, c.done)
	return nil
}

func (c *child) kill() {
	if c.cmd == nil {
		return
	}
	c.in.Close()
	c.cmd.Process.Kill()
	<-c.done
	c.cmd.Wait()
	c.cmd = nil
}

const childTimeout = 120 * time.Second

// do sends one request.  died != "" describes a child that crashed, hung or
// broke the protocol while this request was in flight.
func (c *child) do(rq request) (rs response, died string, infra error) {
	if c.cmd == nil {
		if err := c.start(); err != nil {
			return rs, "", fmt.Errorf("cannot start child %s: %v", c.bin, err)
		}
	}
	b, _ := json.Marshal(&rq)
	b = append(b, '\n')
	type rd struct {
		line []byte
		err  error
	}
	ch := make(chan rd, 1)
	out := c.out
	go func() {
		l, err := out.ReadBytes('\n')
		ch <- rd{l, err}
	}()
	_, werr := c.in.Write(b)
	var r rd
	select {
	case r = <-ch:
	case <-time.After(childTimeout):
		c.kill()
		return rs, fmt.Sprintf("child did not answer within %v (hang / deadlock)", childTimeout), nil
	}
	if r.err != nil || werr != nil {
		c.in.Close()
		<-c.done
		werr2 := c.cmd.Wait()
		c.cmd = nil
		return rs, fmt.Sprintf("child process died (%v): %s", werr2, crashSummary(c.stderr.String())), nil
	}
	if err := json.Unmarshal(r.line, &rs); err != nil {
		c.kill()
		return rs, "", fmt.Errorf("garbled child answer %q: %v", trunc(string(r.line), 200), err)
	}
	if rs.Races > 0 {
		// the race report was written before the answer; wait for it to arrive
		for i := 0; i < 100 && !strings.Contains(c.stderr.String(), "=================="); i++ {
			time.Sleep(5 * time.Millisecond)
		}
		rep := c.stderr.String()
		c.kill() // the detector reports each racing pair of stacks only once per process
		died = "data race reported by the race detector:\n" + raceSummary(rep)
		return rs, died, nil
	}
	return rs, "", nil
}

func trunc(s string, n int) string {
	if len(s) > n {
		return s[:n] + "…"
	}
	return s
}

// crashSummary keeps the head of a Go crash report (fatal error / panic line
// and the first goroutine).
func crashSummary(s string) string {
	for _, key := range []string{"fatal error:", "panic:", "WARNING: DATA RACE", "SIGSEGV"} {
		if i := strings.Index(s, key); i >= 0 {
			return trunc(s[i:], 1800)
		}
	}
	if len(s) > 1800 {
		s = s[len(s)-1800:]
	}
	return s
}

func raceSummary(s string) string {
	i := strings.Index(s, "WARNING: DATA RACE")
	if i < 0 {
		return trunc(s, 1500)
	}
	s = s[i:]
	// keep the two access stacks, drop goroutine creation stacks
	var b bytes.Buffer
	for _, l := range strings.Split(s, "\n") {
		if strings.HasPrefix(l, "Goroutine ") || strings.HasPrefix(l, "==================") {
			break
		}
		b.WriteString(l)
		b.WriteByte('\n')
	}
	return trunc(b.String(), 1800)
}
