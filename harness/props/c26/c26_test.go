// Package c26 checks property C26: symbol interning is a bijection under
// concurrency (value/symbol_table.go).
//
// A case is data: a pool of distinct names, a table presize, a sequential
// prefix and one operation list per goroutine (Add / Add+GetName / Get / Exists /
// GetName(raw id) / sync).  The oracle runs the case several times with real
// goroutines on a FRESH value.NewSymbolTable() inside a child process (see
// child_test.go, engine_test.go) and checks every recorded return value:
// same name => same symbol, distinct names => distinct symbols,
// GetName(Add(n)) == n, ids dense 0..n-1, presence/absence consistent with the
// happens-before order given by program order and the sync rendezvous, and the
// quiescent table afterwards is the same bijection.  Under the -race build of
// this package (driver: "race": true, VERIF_RACE=1) a data-race report in the
// child is an oracle failure as well.
package c26

import (
	"encoding/hex"
	"fmt"
	"os"
	"path/filepath"
	"sort"
	"strings"
	"testing"
	"unicode/utf8"

	"pgregory.net/rapid"

	"verif/internal/pbt"
	"verif/internal/vgen"
)

func TestMain(m *testing.M) {
	if os.Getenv("C26_CHILD") == "1" {
		childMain()
		os.Exit(0)
	}
	pbt.Main(m, "C26")
}

// ---- generator --------------------------------------------------------------

var fixedNames = []string{
	"", " ", "\x00", "foo", "Foo", "FOO", "foo ", " foo", "foo\x00", "fo", "fooo", "foo_", "_foo",
	"é", "e\u0301", "ß", "ss", "日本語", "日本", "👨‍👩‍👧", "👨", "\u200b", "\ufeff", "İ", "i",
	"0", "1", "-1", "+", "[]=", "a b", "\n", "\"", ":foo", "foo=", "foo?", "Std", "Root", "#", "a", "b",
}

func mkName(s string) Name {
	if utf8.ValidString(s) {
		return Name{S: s}
	}
	return Name{X: hex.EncodeToString([]byte(s))}
}

func genName(t *rapid.T, prev []Name) Name {
	switch vgen.Pick(t, 8, "nk") {
	case 0, 1:
		return mkName(rapid.SampledFrom(fixedNames).Draw(t, "fixed"))
	case 2:
		return mkName(rapid.StringMatching(`[a-zA-Z_][a-z0-9_]{0,6}`).Draw(t, "ident"))
	case 3:
		return mkName(rapid.StringN(0, 6, -1).Draw(t, "uni"))
	case 4:
		return mkName(string(vgen.Str(t, "raw"))) // may be invalid UTF-8
	case 5: // long name; near-duplicate long names differ in the tail only
		return Name{
			S:    rapid.SampledFrom([]string{"a", "ab", "é", "x_", "\x00"}).Draw(t, "lbase"),
			Rep:  rapid.SampledFrom([]int{17, 64, 255, 1000, 4096}).Draw(t, "lrep"),
			Tail: rapid.SampledFrom([]string{"", "a", "b", " ", "\x00"}).Draw(t, "ltail"),
		}
	default: // near-duplicate of an earlier name
		if len(prev) == 0 {
			return mkName(rapid.SampledFrom(fixedNames).Draw(t, "fixed"))
		}
		base := prev[rapid.IntRange(0, len(prev)-1).Draw(t, "dupof")]
		if base.Rep > 1 {
			base.Tail = rapid.SampledFrom([]string{"", "a", "b", " ", "\x00", "aa"}).Draw(t, "ltail")
			return base
		}
		s := base.Build()
		switch vgen.Pick(t, 6, "dupk") {
		case 0:
			s += rapid.SampledFrom([]string{" ", "\x00", "_", "a", "\u0301", "\u200b"}).Draw(t, "suffix")
		case 1:
			if len(s) > 0 {
				s = s[:len(s)-1] // may cut a rune in half
			}
		case 2:
			s = strings.ToUpper(s)
		case 3:
			s = strings.ToLower(s)
		case 4:
			s = rapid.SampledFrom([]string{" ", "\x00", "_", ":"}).Draw(t, "prefix") + s
		case 5:
			s = s + s
		}
		return mkName(s)
	}
}

var opKinds = []string{"add", "add", "add", "rt", "rt", "get", "get", "exists", "gn", "gn"}

func genCase(t *rapid.T) Case {
	c := Case{
		Presize: rapid.SampledFrom([]int{0, 1, 128}).Draw(t, "presize"),
		Global:  vgen.Pick(t, 4, "global") == 0,
		Seed:    rapid.Uint64().Draw(t, "seed"),
	}
	want := rapid.IntRange(1, 12).Draw(t, "nnames")
	seen := map[string]bool{}
	for i := 0; i < want; i++ {
		n := genName(t, c.Names)
		if b := n.Build(); !seen[b] {
			seen[b] = true
			c.Names = append(c.Names, n)
		}
	}
	nn := len(c.Names)
	c.Pre = []int{}
	if vgen.Pick(t, 3, "haspre") == 0 {
		c.Pre = rapid.SliceOfN(rapid.IntRange(0, nn-1), 0, 4).Draw(t, "pre")
	}
	var g int
	if vgen.Pick(t, 2, "gk") == 0 {
		g = rapid.SampledFrom([]int{2, 3, 4, 8, 16, 32}).Draw(t, "g")
	} else {
		g = rapid.IntRange(2, 32).Draw(t, "g")
	}
	rounds := rapid.IntRange(1, 4).Draw(t, "rounds")
	c.Threads = make([][]Op, g)
	for r := 0; r < rounds; r++ {
		hot := rapid.IntRange(0, nn-1).Draw(t, "hot")
		hotP := vgen.Pick(t, 4, "hotp") // 0: no hot name this round
		for gi := 0; gi < g; gi++ {
			if r > 0 {
				c.Threads[gi] = append(c.Threads[gi], Op{K: "sync"})
			}
			if hotP > 0 && vgen.Pick(t, 4, "takehot") < hotP+1 {
				k := "add"
				if rapid.Bool().Draw(t, "hotrt") {
					k = "rt"
				}
				c.Threads[gi] = append(c.Threads[gi], Op{K: k, N: hot})
			}
			nops := rapid.IntRange(0, 4).Draw(t, "nops")
			for j := 0; j < nops; j++ {
				k := opKinds[vgen.Pick(t, len(opKinds), "op")]
				o := Op{K: k}
				if k == "gn" {
					o.N = rapid.IntRange(-2, nn+1).Draw(t, "id")
				} else {
					o.N = rapid.IntRange(0, nn-1).Draw(t, "name")
				}
				c.Threads[gi] = append(c.Threads[gi], o)
			}
		}
	}
	for gi := range c.Threads {
		if c.Threads[gi] == nil {
			c.Threads[gi] = []Op{}
		}
	}
	// generations: mostly 1; long free-running cases are the ones that overlap for real
	c.Gens = 1
	switch vgen.Pick(t, 32, "gensk") {
	case 0, 1, 2, 3:
		c.Gens = rapid.IntRange(2, 8).Draw(t, "gens")
	case 4, 5, 6:
		c.Gens = rapid.IntRange(9, 100).Draw(t, "gens")
	case 7:
		c.Gens = rapid.IntRange(101, 3000).Draw(t, "gens")
	}
	c.Gens = c.gens() // clamp to the work bounds
	return c
}

// ---- structural classification (pure function of the case) -------------------

// contended returns the names for which at least two goroutines issue an Add
// while no Add of that name is ordered before either of them: the goroutines
// race for the insertion of a new name.
func contended(c Case) []int {
	pre := map[int]bool{}
	for _, i := range c.Pre {
		pre[i] = true
	}
	type ad struct{ g, phase int }
	adds := map[int][]ad{}
	for g, th := range c.Threads {
		phase := 0
		own := map[int]bool{}
		for _, o := range th {
			switch o.K {
			case "sync":
				phase++
			case "add", "rt":
				if !own[o.N] { // only the first Add of a name by a goroutine can be the inserting one
					own[o.N] = true
					adds[o.N] = append(adds[o.N], ad{g, phase})
				}
			}
		}
	}
	var out []int
	for i, as := range adds {
		if pre[i] {
			continue
		}
		// an Add is a candidate inserter unless another goroutine's Add is ordered before it
		cand := 0
		for _, a := range as {
			ordered := false
			for _, b := range as {
				if b.g != a.g && b.phase < a.phase {
					ordered = true
				}
			}
			if !ordered {
				cand++
			}
		}
		if cand >= 2 {
			out = append(out, i)
		}
	}
	sort.Ints(out)
	return out
}

func bucket(n int) string {
	switch {
	case n <= 2:
		return fmt.Sprint(n)
	case n <= 4:
		return "3-4"
	case n <= 8:
		return "5-8"
	case n <= 16:
		return "9-16"
	}
	return "17-32"
}

// ---- oracle -------------------------------------------------------------------

var (
	kids      []*child
	failSeen  bool // after the first failure every case is repeated more often (reliable shrinking)
	kidsReady bool
)

func children(replay bool) ([]*child, error) {
	if kidsReady {
		return kids, nil
	}
	self, err := os.Executable()
	if err != nil {
		return nil, err
	}
	kids = []*child{{bin: self}}
	// replays of race findings need the race-built binary even though the driver
	// replays with the plain one
	if replay && !raceBuild {
		if rb := filepath.Join(os.Getenv("VERIF_BUILD"), "c26.race.test"); os.Getenv("VERIF_BUILD") != "" {
			if st, err := os.Stat(rb); err == nil && !st.IsDir() {
				kids = append(kids, &child{bin: rb})
			}
		}
	}
	kidsReady = true
	return kids, nil
}

func reps(replay bool) int {
	n := 3
	if failSeen {
		n = 40
	}
	if replay {
		n = 400
	}
	if raceBuild || os.Getenv("VERIF_RACE") == "1" {
		if n > 100 {
			n = 100
		}
	}
	return n
}

func oracle(c Case, ctx *pbt.Ctx) error {
	ks, err := children(ctx.Replay)
	if err != nil {
		return fmt.Errorf("infrastructure: %v", err)
	}
	cont := contended(c)
	ctx.Label(fmt.Sprintf("presize:%d", c.Presize))
	ctx.Label(fmt.Sprintf("global:%v", c.Global))
	ctx.Label("goroutines:" + bucket(len(c.Threads)))
	ctx.Label("names:" + bucket(len(c.Names)))
	ctx.Label(fmt.Sprintf("pre:%v", len(c.Pre) > 0))
	switch g := c.gens(); {
	case g == 1:
		ctx.Label("gens:1")
	case g <= 8:
		ctx.Label("gens:2-8")
	case g <= 100:
		ctx.Label("gens:9-100")
	default:
		ctx.Label("gens:>100")
	}
	if maxSyncs(c) == 0 {
		ctx.Label("free-running")
	}
	kinds := map[string]bool{}
	long, invalid, empty := false, false, false
	for _, n := range c.Names {
		if n.Rep > 1 {
			long = true
		}
		if n.X != "" {
			invalid = true
		}
		if n.Build() == "" {
			empty = true
		}
	}
	for _, th := range c.Threads {
		for _, o := range th {
			kinds[o.K] = true
		}
	}
	for k := range kinds {
		ctx.Label("op:" + k)
	}
	if long {
		ctx.Label("name:long")
	}
	if invalid {
		ctx.Label("name:invalid-utf8")
	}
	if empty {
		ctx.Label("name:empty")
	}
	if len(cont) > 0 {
		ctx.Label("contended-new-names:" + bucket(len(cont)))
	} else {
		ctx.Label("contended-new-names:0")
	}

	for ki, k := range ks {
		rs, died, infra := k.do(request{Case: c, Reps: reps(ctx.Replay)})
		if infra != nil {
			pbt.Inconclusive()
			return nil
		}
		if died != "" {
			failSeen = true
			return fmt.Errorf("%s", died)
		}
		if rs.Bad != "" {
			return fmt.Errorf("malformed case: %s", rs.Bad)
		}
		if rs.Err != "" {
			failSeen = true
			return fmt.Errorf("%s", rs.Err)
		}
		if ki == 0 {
			if rs.Overlap > 0 {
				ctx.Label("measured-overlap-on-new-name:yes")
			} else if len(cont) > 0 {
				ctx.Label("measured-overlap-on-new-name:no")
			}
		}
	}
	if len(cont) > 0 {
		// canonical key: everything but the perturbation seed
		k := c
		k.Seed = 0
		ctx.NonTrivial(fmt.Sprintf("%+v", k))
	}
	return nil
}

const rule = "names: fixed edge list (\"\", NUL, case/space/normalisation variants, reserved words), identifiers, random Unicode, invalid UTF-8, long (17..4096 repeats) and near-duplicates of earlier names (suffix/prefix/cut/case/doubling), pool of 1-12 distinct names; presize 0/1/128; optional sequential prefix; 2-32 goroutines x 1-4 rounds separated by rendezvous, each round optionally with a hot name most goroutines Add first, then 0-4 random ops (Add, Add+GetName, Get, Exists, GetName(raw id -2..n+1)); 1/4 of the cases go through value.ToSymbol / Symbol.String on a swapped-in global table. Every case runs 3 times (seeded Gosched/spin perturbation) in a child process. NON-TRIVIAL: at least two goroutines Add the same not-yet-present name with no happens-before order between the calls (they race for the insertion); distinct = case without the perturbation seed."

func TestInterning(t *testing.T) {
	pbt.Rule("interning", rule)
	quick, thorough := 8000, 300000
	if os.Getenv("VERIF_RACE") == "1" {
		// the driver splits the same totals over the race shards; the race build is ~10x slower
		quick, thorough = 800, 10000
	}
	pbt.Run(t, pbt.Prop[Case]{
		Name:        "interning",
		Quick:       quick,
		Thorough:    thorough,
		Gen:         genCase,
		Oracle:      oracle,
		HangSeconds: 600,
		Sample: func(c Case) any {
			names := make([]string, len(c.Names))
			for i, n := range c.Names {
				names[i] = shortQ(n.Build())
			}
			ops := 0
			for _, th := range c.Threads {
				ops += len(th)
			}
			return map[string]any{"presize": c.Presize, "global": c.Global, "names": names, "pre": c.Pre, "goroutines": len(c.Threads), "gens": c.gens(), "ops": ops, "contended": contended(c), "thread0": c.Threads[0]}
		},
	})
	for _, k := range kids {
		k.kill()
	}
}
