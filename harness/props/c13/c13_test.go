package c13

import (
	"fmt"
	"testing"

	"pgregory.net/rapid"

	"verif/internal/mini"
	"verif/internal/mrun"
	"verif/internal/pbt"
	sb "verif/internal/sandbox"
)

func TestMain(m *testing.M) { pbt.Main(m, "C13") }

var (
	wDefault *sb.Worker // default sizing
	wSmall   *sb.Worker // small initial value stack: deep() calls reallocate it while upvalues are open
)

func gen(t *rapid.T) mrun.Case { return mrun.Gen(t, mini.ClosureP) }

func oracle(c mrun.Case, ctx *pbt.Ctx) error {
	if _, _, err := mrun.Compare(wDefault, c, ctx, sb.Cfg{}); err != nil {
		return err
	}
	if c.Events["deep_call"] > 0 {
		if _, _, err := mrun.Compare(wSmall, c, ctx, sb.Cfg{}); err != nil {
			return fmt.Errorf("with ELK_INIT_VALUE_STACK_SIZE=4000 (value stack reallocated during deep calls): %w", err)
		}
		ctx.Label("ran_small_stack")
	}
	ev := c.Events
	shared := ev["upvalue_write"] > 0 || ev["outer_write_after_capture"] > 0
	if shared && (ev["closed_upvalue_access"] > 0 || ev["outer_read_after_capture"] > 0 || ev["deep_call"] > 0) {
		ctx.NonTrivial(c.Src)
	}
	return nil
}

// closure profile with throw / catch / finally / defer: frames and blocks that are unwound by a throw while
// closures over their variables are still reachable. The two shapes C14 records as known findings (exit from a
// catch clause that has a finally, catch inside a handler) are outside this test's domain.
func genUnwind(t *rapid.T) mrun.Case {
	p := mini.ClosureP
	p.Throw, p.Defer, p.ClosureBias = true, true, 3
	p.NoExitFromCatchWithFinally, p.NoCatchInsideHandler = true, true
	return mrun.Gen(t, p)
}

func oracleUnwind(c mrun.Case, ctx *pbt.Ctx) error {
	if _, _, err := mrun.Compare(wDefault, c, ctx, sb.Cfg{}); err != nil {
		return err
	}
	if ctx.Replay {
		// deep-caught-throw-corrupts-frames (fixed 4eaf1af) was intermittent: a replay gets three more tries
		for i := 0; i < 3; i++ {
			if _, _, err := mrun.Compare(wDefault, c, ctx, sb.Cfg{}); err != nil {
				return err
			}
		}
	}
	ev := c.Events
	if ev["unwound_upvalue_access"] > 0 {
		ctx.Label("unwound_upvalue_access")
	}
	if (ev["upvalue_write"] > 0 || ev["outer_write_after_capture"] > 0) && ev["closed_upvalue_access"] > 0 {
		ctx.NonTrivial(c.Src)
	}
	return nil
}

func TestClosuresUnwind(t *testing.T) {
	pbt.Rule("closures_unwind", "MiniElk closure profile plus throw / catch / finally / defer: closures (also escaping through assignments to outer closure variables and maker methods) over variables of frames and blocks that are left by a throw caught further out; same reference-interpreter oracle; non-trivial = a captured variable is written after capture and accessed after its defining scope exited; label unwound_upvalue_access = accessed after that scope was left by a throw")
	wDefault = sb.New("debug")
	defer wDefault.Close()
	pbt.Run(t, pbt.Prop[mrun.Case]{Name: "closures_unwind", Quick: 500, Thorough: 15000, Gen: genUnwind, Oracle: oracleUnwind,
		Minimize: func(c mrun.Case) mrun.Case { return mrun.Minimize(c, oracleUnwind) }, Sample: mrun.Sample})
}

func TestClosures(t *testing.T) {
	pbt.Rule("closures", "MiniElk programs (closure profile): nested -> closures (depth <= 3) capturing locals, parameters, loop-body locals and for-in/fornum variables; counters mutated from the closure and from the enclosing scope; maker methods returning closures over their own locals/parameters (used after the defining call returned); sibling closures sharing a variable; closure calls in tail position; deep(n, f) calls a closure below 20..140 extra frames, and those programs also run with a 4000-byte initial value stack so that the stack is reallocated while upvalues are open. stdout and the uncaught error must equal the Go reference interpreter (environment model with shared mutable cells; loop-body locals and for-in/fornum variables are fresh per iteration). Non-trivial = a captured variable is written after capture (by the closure or the scope) and observed by the other party, after the defining frame returned, or across a deep call; distinct by source")
	wDefault = sb.New("debug")
	wSmall = sb.New("debug", "ELK_INIT_VALUE_STACK_SIZE=4000")
	defer wDefault.Close()
	defer wSmall.Close()
	pbt.Run(t, pbt.Prop[mrun.Case]{Name: "closures", Quick: 700, Thorough: 25000, Gen: gen, Oracle: oracle,
		Minimize: func(c mrun.Case) mrun.Case { return mrun.Minimize(c, oracle) }, Sample: mrun.Sample})
}
