package c02

// Generator of type-directed Elk programs for C02.  The generator keeps a small
// model of the static types (sets of atoms) only to keep the rejection rate low:
// the checker arbitrates, and the static type of every probe is read from the
// checked tree by the worker, never from this model.

import (
	"fmt"
	"sort"
	"strings"

	"pgregory.net/rapid"

	"verif/internal/vgen"
)

// Ty is a union of atoms (sorted, unique).  Atoms: scalar class names, "nil",
// user classes, and a fixed menu of collection instantiations.
type Ty []string

func ty(a ...string) Ty {
	m := map[string]bool{}
	for _, x := range a {
		m[x] = true
	}
	var out Ty
	for x := range m {
		out = append(out, x)
	}
	sort.Strings(out)
	return out
}

func (t Ty) has(a string) bool {
	for _, x := range t {
		if x == a {
			return true
		}
	}
	return false
}

func (t Ty) without(a ...string) Ty {
	var out []string
	for _, x := range t {
		drop := false
		for _, y := range a {
			if x == y {
				drop = true
			}
		}
		if !drop {
			out = append(out, x)
		}
	}
	return ty(out...)
}

func (t Ty) eq(o Ty) bool { return t.String() == o.String() }

// subclasses of user classes (atom -> atoms that are instances of it)
var below = map[string][]string{"Animal": {"Animal", "Dog", "Cat"}}

func family(a string) []string {
	if f, ok := below[a]; ok {
		return f
	}
	return []string{a}
}

// accepts: may a value of atom a be stored where t is expected?
func (t Ty) accepts(a string) bool {
	if t.has(a) {
		return true
	}
	if (a == "Dog" || a == "Cat") && t.has("Animal") {
		return true
	}
	return false
}

func (t Ty) String() string {
	if len(t) == 0 {
		return "never"
	}
	var parts []string
	hasNil := false
	for _, a := range t {
		if a == "nil" {
			hasNil = true
			continue
		}
		parts = append(parts, a)
	}
	if hasNil {
		parts = append(parts, "nil")
	}
	return strings.Join(parts, " | ")
}

// element types of the collection atoms
var elemOf = map[string]Ty{
	"ArrayList[Int]":            ty("Int"),
	"ArrayList[String]":         ty("String"),
	"ArrayList[Float]":          ty("Float"),
	"ArrayList[Int | String]":   ty("Int", "String"),
	"ArrayList[Int | nil]":      ty("Int", "nil"),
	"ArrayList[Int | Float]":    ty("Int", "Float"),
	"ArrayList[Animal]":         ty("Animal"),
	"HashMap[String, Int]":      ty("Int"),
	"HashMap[Symbol, String]":   ty("String"),
	"HashMap[Int, Int | Float]": ty("Int", "Float"),
}

var keyOf = map[string]string{"HashMap[String, Int]": "String", "HashMap[Symbol, String]": "Symbol", "HashMap[Int, Int | Float]": "Int"}

func isList(a string) bool { return strings.HasPrefix(a, "ArrayList[") }
func isMap(a string) bool  { return strings.HasPrefix(a, "HashMap[") }

var scalarAtoms = []string{"Int", "Float", "String", "Char", "Symbol", "Bool", "nil", "Int", "String", "Float", "nil"}
var numericAtoms = []string{"BigFloat", "Int8", "Int64", "UInt8", "Float32", "Float64"}
var classAtoms = []string{"Animal", "Dog", "Cat"}
var listAtoms = []string{"ArrayList[Int]", "ArrayList[String]", "ArrayList[Float]", "ArrayList[Int | String]", "ArrayList[Int | nil]", "ArrayList[Int | Float]", "ArrayList[Animal]"}
var mapAtoms = []string{"HashMap[String, Int]", "HashMap[Symbol, String]", "HashMap[Int, Int | Float]"}

type Var struct {
	Name    string
	Decl    Ty
	Cur     Ty
	Mut     bool
	ClosAsg bool // some closure assigns this variable
	depth   int  // loop depth at which the current narrowing was established
	// model-independent bookkeeping for the known-finding exclusions
	cond      int  // number of narrowing conditions currently in force on this variable
	condLoopD int  // loop depth at which the outermost of them was established
	everCond  bool // the variable is narrowed by some condition somewhere
}

func (v *Var) enterCond(loopD int) {
	if v.cond == 0 {
		v.condLoopD = loopD
	}
	v.cond++
	v.everCond = true
}

func (v *Var) narrowed() bool { return !v.Cur.eq(v.Decl) }

type Probe struct {
	ID   int    `json:"id"`
	Expr string `json:"expr"`
	Cat  string `json:"cat"`
}

type gen struct {
	t       *rapid.T
	out     strings.Builder
	ind     int
	vars    []*Var
	probes  []Probe
	flags   map[string]bool
	nvar    int
	nclos   int
	budget  int // remaining statements
	loopD   int
	inMeth  bool
	retTy   Ty // inside a method: declared return type
	methods []methSig
	noProbe int
	allVars []*Var
}

type methSig struct {
	Name   string
	Params []Ty
	Ret    Ty
}

func (g *gen) pick(n int, label string) int { return vgen.Pick(g.t, n, label) }
func (g *gen) chance(pct int, label string) bool {
	return vgen.Pick(g.t, 100, label) < pct // uniform (rapid's integer generators are biased to small values)
}
func (g *gen) oneOf(label string, xs ...string) string { return xs[g.pick(len(xs), label)] }

func (g *gen) line(format string, a ...any) {
	g.out.WriteString(strings.Repeat("  ", g.ind))
	fmt.Fprintf(&g.out, format, a...)
	g.out.WriteByte('\n')
}

func (g *gen) flag(f string) { g.flags[f] = true }

// probe wraps e as a probe site.
func (g *gen) probe(e, cat string) string {
	if g.noProbe > 0 {
		return e
	}
	id := len(g.probes) + 1
	g.probes = append(g.probes, Probe{ID: id, Expr: e, Cat: cat})
	return fmt.Sprintf("vprobe(%d, %s)", id, e)
}

// maybe wraps e with probability pct.
func (g *gen) maybe(pct int, e, cat string) string {
	if g.chance(pct, "probe?") {
		return g.probe(e, cat)
	}
	return e
}

func (g *gen) newVarName() string {
	g.nvar++
	return fmt.Sprintf("v%d", g.nvar)
}

// ---------------------------------------------------------------- types

func (g *gen) atom(label string) string {
	switch g.pick(8, label) {
	case 0:
		return numericAtoms[g.pick(len(numericAtoms), label)]
	case 1:
		return classAtoms[g.pick(len(classAtoms), label)]
	case 2:
		if g.chance(70, label) {
			return listAtoms[g.pick(len(listAtoms), label)]
		}
		return mapAtoms[g.pick(len(mapAtoms), label)]
	}
	return scalarAtoms[g.pick(len(scalarAtoms), label)]
}

// declType draws a declared type biased to unions and nilables.
func (g *gen) declType() Ty {
	switch g.pick(8, "decl") {
	case 0:
		return ty(g.atom("d1"))
	case 1, 2, 3:
		a := g.atom("d1")
		return ty(a, "nil")
	case 4, 5:
		return ty(g.atom("d1"), g.atom("d2"))
	case 6:
		return ty(g.atom("d1"), g.atom("d2"), "nil")
	}
	return ty(g.atom("d1"), g.atom("d2"), g.atom("d3"))
}

// ---------------------------------------------------------------- expressions

func (g *gen) intLit() string {
	return g.oneOf("int", "0", "1", "2", "3", "7", "-1", "-5", "10", "255", "9223372036854775807", "9223372036854775808", "-9223372036854775809")
}

func (g *gen) smallInt() string { return g.oneOf("sint", "0", "1", "2", "3") }

func (g *gen) literal(a string) string {
	switch a {
	case "Int":
		return g.intLit()
	case "Float":
		return g.oneOf("flt", "0.0", "1.5", "-2.25", "3.0", "1e3", "0.1")
	case "String":
		return g.oneOf("str", `"a"`, `""`, `"foo"`, `"héllo"`, `"12"`, `"x y"`)
	case "Char":
		return g.oneOf("chr", "`a`", "`z`", "`1`", "`ś`")
	case "Symbol":
		return g.oneOf("sym", ":foo", ":bar", ":a")
	case "Bool":
		return g.oneOf("bool", "true", "false")
	case "nil":
		return "nil"
	case "BigFloat":
		return g.oneOf("bf", "1.5bf", "0.0bf", "-3.25bf")
	case "Int8":
		return g.oneOf("i8", "3i8", "-1i8", "127i8", "0i8")
	case "Int64":
		return g.oneOf("i64", "3i64", "-1i64", "9223372036854775807i64")
	case "UInt8":
		return g.oneOf("u8", "3u8", "255u8", "0u8")
	case "Float32":
		return g.oneOf("f32", "1.5f32", "0.0f32")
	case "Float64":
		return g.oneOf("f64", "1.5f64", "-2.0f64")
	case "Animal":
		return "Animal()"
	case "Dog":
		return "Dog()"
	case "Cat":
		return "Cat()"
	}
	if isList(a) {
		el := elemOf[a]
		n := g.pick(3, "listlen")
		var items []string
		// one item per member of the element type first: the inferred element type is then the declared one
		for _, m := range el {
			items = append(items, g.expr(ty(m), 2))
		}
		for i := 0; i < n; i++ {
			items = append(items, g.expr(el, 2))
		}
		return "[" + strings.Join(items, ", ") + "]"
	}
	if isMap(a) {
		k, el := keyOf[a], elemOf[a]
		n := g.pick(2, "maplen")
		var items []string
		for _, m := range el {
			items = append(items, g.literal(k)+" => "+g.expr(ty(m), 2))
		}
		for i := 0; i < n; i++ {
			items = append(items, g.literal(k)+" => "+g.expr(el, 2))
		}
		return "{ " + strings.Join(items, ", ") + " }"
	}
	return "nil"
}

// varsOf returns the visible variables whose current type fits into want.
func (g *gen) varsOf(want Ty) []*Var {
	var out []*Var
	for _, v := range g.vars {
		if len(v.Cur) == 0 {
			continue
		}
		ok := true
		for _, a := range v.Cur {
			if !want.accepts(a) {
				ok = false
			}
		}
		if ok {
			out = append(out, v)
		}
	}
	return out
}

func (g *gen) useVar(v *Var) string {
	if v.narrowed() {
		if v.ClosAsg {
			g.flag("closure_assigns_narrowed")
		}
		return g.maybe(70, v.Name, "narrowed")
	}
	return g.maybe(25, v.Name, "local")
}

// expr generates an expression whose static type should fit into want.
func (g *gen) expr(want Ty, d int) string {
	if len(want) == 0 {
		return "nil"
	}
	// variables first: they carry the narrowing
	if vs := g.varsOf(want); len(vs) > 0 && g.chance(45, "usevar") {
		return g.useVar(vs[g.pick(len(vs), "whichvar")])
	}
	// nilable producers
	if want.has("nil") && len(want) >= 2 && d < 3 && g.chance(35, "nilable") {
		if e, ok := g.nilableExpr(want, d); ok {
			return e
		}
	}
	a := want[g.pick(len(want), "atom")]
	if a == "Animal" && g.chance(50, "sub") {
		a = g.oneOf("subcls", "Dog", "Cat")
	}
	if d >= 3 || g.chance(25, "lit") {
		return g.literal(a)
	}
	return g.atomExpr(a, d+1)
}

// nilableExpr: an expression of type T? for some non-nil atom T of want.
func (g *gen) nilableExpr(want Ty, d int) (string, bool) {
	nn := want.without("nil")
	a := nn[g.pick(len(nn), "nn")]
	var cands []string
	for _, l := range listAtoms {
		if elemOf[l].eq(ty(a)) {
			cands = append(cands, l)
		}
	}
	for _, m := range mapAtoms {
		if elemOf[m].eq(ty(a)) {
			cands = append(cands, m)
		}
	}
	// methods returning T?
	for _, m := range g.methods {
		if m.Ret.eq(ty(a, "nil")) {
			cands = append(cands, "meth:"+m.Name)
		}
	}
	if len(cands) == 0 {
		return "", false
	}
	c := cands[g.pick(len(cands), "nilcand")]
	switch {
	case strings.HasPrefix(c, "meth:"):
		return g.callMethod(c[5:], d), true
	case isList(c):
		recv := g.expr(ty(c), d+1)
		switch g.pick(3, "nilop") {
		case 0:
			return g.maybe(70, recv+".try_first", "native"), true
		case 1:
			return g.maybe(70, recv+".try_last", "native"), true
		}
		return g.maybe(70, recv+".try_at("+g.smallInt()+")", "native"), true
	default:
		recv := g.expr(ty(c), d+1)
		return g.maybe(70, fmt.Sprintf("%s[%s]", recv, g.literal(keyOf[c])), "native"), true
	}
}

func (g *gen) callMethod(name string, d int) string {
	for _, m := range g.methods {
		if m.Name == name {
			var args []string
			for _, p := range m.Params {
				args = append(args, g.expr(p, d+1))
			}
			return g.maybe(60, fmt.Sprintf("%s(%s)", name, strings.Join(args, ", ")), "method")
		}
	}
	return "nil"
}

func paren(e string) string { return "(" + e + ")" }

// atomExpr: a compound expression of atom type a.
func (g *gen) atomExpr(a string, d int) string {
	E := func(atoms ...string) string { return g.expr(ty(atoms...), d) }
	// user methods returning exactly this atom
	var ms []string
	for _, m := range g.methods {
		if m.Ret.eq(ty(a)) {
			ms = append(ms, m.Name)
		}
	}
	if len(ms) > 0 && g.chance(20, "usemeth") {
		return g.callMethod(ms[g.pick(len(ms), "whichmeth")], d)
	}
	// generic wrappers, any atom
	if g.chance(18, "generic") {
		gk := g.pick(5, "genkind")
		if strings.Contains(a, "[") && gk >= 2 {
			gk = g.pick(2, "genkind2")
		}
		switch gk {
		case 0:
			return g.probe("ident("+E(a)+")", "generic")
		case 1:
			return g.probe("Box("+E(a)+").get", "generic")
		case 2:
			return g.probe(fmt.Sprintf("pick(%s, %s, %s)", E("Bool"), E(a), E(a)), "generic")
		case 3:
			for _, l := range listAtoms {
				if elemOf[l].eq(ty(a)) {
					return g.probe(fmt.Sprintf("first_or(%s, %s)", E(l), E(a)), "generic")
				}
			}
			return g.probe("ident("+E(a)+")", "generic")
		default:
			return g.probe(fmt.Sprintf("Pair(%s, %s).%s", E(a), E(a), g.oneOf("kv", "key", "value")), "generic")
		}
	}
	// value-level narrowing operators on variables that may hold this atom
	if g.chance(20, "narrowop") {
		if e, ok := g.narrowOp(a, d); ok {
			return e
		}
	}
	switch a {
	case "Int":
		switch g.pick(14, "int") {
		case 0, 1:
			return g.maybe(60, paren(E("Int")+" "+g.oneOf("iop", "+", "-", "*")+" "+E("Int")), "arith")
		case 2:
			return g.maybe(60, E("String")+".length", "native")
		case 3:
			return g.maybe(60, E(listAtoms[g.pick(len(listAtoms), "l")])+".length", "native")
		case 4:
			return g.maybe(60, g.literal("Float")+".to_int", "native") // literal receiver: NaN.to_int is a Go panic (big.Float(NaN)), a crash C01 owns
		case 5:
			return g.maybe(60, paren(E("Int")+" "+g.oneOf("iop2", "%", "/", "&", "|", "^")+" "+g.oneOf("nz", "1", "2", "3", "7", "-3")), "arith")
		case 6:
			return g.maybe(60, paren(E("Int")+" "+g.oneOf("shift", "<<", ">>")+" "+g.smallInt()), "arith")
		case 7:
			return g.maybe(60, paren(E("Int")+" ** "+g.smallInt()), "arith")
		case 8:
			return g.maybe(60, paren("-("+E("Int")+")"), "arith")
		case 9:
			return g.maybe(60, paren(E("String")+" <=> "+E("String")), "native")
		case 10:
			return g.maybe(60, E("Animal")+".legs", "bound")
		case 11:
			return g.maybe(60, E("String")+".byte_count", "native")
		case 12:
			return g.maybe(60, E("Char")+".byte_count", "native")
		default:
			return g.maybe(60, E("Int8", "Int64", "UInt8")+".to_int", "native")
		}
	case "Float":
		switch g.pick(8, "float") {
		case 0:
			return g.maybe(60, paren(E("Float")+" "+g.oneOf("fop", "+", "-", "*", "/")+" "+E("Float")), "arith")
		case 1:
			return g.maybe(70, paren(E("Int")+" "+g.oneOf("fop", "+", "-", "*", "/")+" "+E("Float")), "arith")
		case 2:
			return g.maybe(70, paren(E("Float")+" "+g.oneOf("fop", "+", "-", "*", "/")+" "+E("Int")), "arith")
		case 3:
			return g.maybe(60, E("Int")+".to_float", "native")
		case 4:
			return g.maybe(60, paren(E("Float")+" ** "+g.smallInt()), "arith")
		case 5:
			return g.maybe(60, paren("-("+E("Float")+")"), "arith")
		case 6:
			return g.maybe(60, paren(E("Float")+" % "+g.oneOf("fnz", "2", "1.5")), "arith")
		default:
			return g.maybe(60, E("BigFloat", "Float32", "Float64", "Int8")+".to_float", "native")
		}
	case "String":
		switch g.pick(11, "string") {
		case 0:
			return g.maybe(60, paren(E("String")+" + "+E("String", "Char")), "native")
		case 1:
			return g.maybe(60, E("String")+"."+g.oneOf("smeth", "uppercase", "lowercase", "to_string", "inspect"), "native")
		case 2:
			return g.maybe(60, E("Int", "Float", "Symbol", "Char", "Bool", "nil")+".inspect", "native")
		case 3:
			return g.maybe(60, `"<#{`+g.expr(ty("Int", "Float"), 3)+`}>"`, "interp")
		case 4:
			return g.maybe(60, paren(E("String")+" * "+g.smallInt()), "native")
		case 5:
			return g.maybe(60, E("Animal")+".speak", "bound")
		case 6:
			return g.maybe(60, E("String")+".grapheme_at(0)", "native")
		case 7:
			return g.maybe(60, paren(E("String")+" - "+E("String", "Char")), "native")
		case 8:
			return g.maybe(60, E("String")+".rjust("+g.smallInt()+", `.`)", "native")
		case 9:
			return g.maybe(60, E("Dog")+".name", "bound")
		default:
			return g.maybe(60, E("Symbol")+".to_string", "native")
		}
	case "Char":
		switch g.pick(3, "char") {
		case 0:
			return g.maybe(60, E("String")+".char_at(0)", "native")
		case 1:
			return g.maybe(60, E("Char")+"."+g.oneOf("cmeth", "uppercase", "lowercase"), "native")
		}
		return g.literal("Char")
	case "Symbol":
		if g.chance(60, "symop") {
			return g.maybe(60, E("String")+".to_symbol", "native")
		}
		return g.literal("Symbol")
	case "Bool":
		switch g.pick(10, "bool") {
		case 0:
			return g.maybe(50, paren(E("Int")+" "+g.oneOf("cmp", "<", "<=", ">", ">=", "==", "!=")+" "+E("Int")), "arith")
		case 1:
			return g.maybe(50, paren(E("Float")+" "+g.oneOf("cmp", "<", "<=", ">", ">=", "==", "!=")+" "+E("Float", "Int")), "arith")
		case 2:
			return g.maybe(50, E("String")+".is_empty", "native")
		case 3:
			return g.maybe(50, paren("!"+E("Bool")), "arith")
		case 4:
			return g.maybe(50, paren(E("String")+" "+g.oneOf("scmp", "<", "==", ">=")+" "+E("String")), "native")
		case 5:
			return g.maybe(50, paren(E("Int")+" "+g.oneOf("cmpf", "<", ">", "==")+" "+E("Float")), "arith")
		case 6:
			if len(g.vars) > 0 {
				v := g.vars[g.pick(len(g.vars), "isavar")]
				for _, c := range v.Cur {
					if c != "nil" && c != "Bool" && !strings.Contains(c, "[") {
						return g.maybe(50, paren(v.Name+" "+g.oneOf("isa", "<:", "<<:")+" "+c), "arith")
					}
				}
			}
			return g.literal("Bool")
		case 7:
			return g.maybe(50, E(listAtoms[g.pick(len(listAtoms), "l")])+".is_empty", "native")
		case 8:
			return g.maybe(50, paren(E("Bool")+" "+g.oneOf("lop", "&&", "||")+" "+E("Bool")), "logic")
		default:
			return g.maybe(50, E("ArrayList[Int]")+".contains("+E("Int")+")", "native")
		}
	case "BigFloat":
		switch g.pick(4, "bigfloat") {
		case 0:
			return g.maybe(70, paren(E("BigFloat")+" "+g.oneOf("bop", "+", "-", "*")+" "+E("BigFloat", "Int", "Float")), "arith")
		case 1:
			return g.maybe(70, paren(E("Int", "Float")+" "+g.oneOf("bop", "+", "-", "*")+" "+E("BigFloat")), "arith")
		case 2:
			return g.maybe(70, paren(E("BigFloat")+" / "+g.oneOf("bfnz", "2", "1.5bf", "0.5")), "arith")
		}
		return g.literal(a)
	case "Int8", "Int64", "UInt8", "Float32", "Float64":
		conv := map[string]string{"Int8": "to_int8", "Int64": "to_int64", "UInt8": "to_uint8", "Float32": "to_float32", "Float64": "to_float64"}[a]
		switch g.pick(4, "fixed") {
		case 0:
			return g.maybe(70, paren(E(a)+" "+g.oneOf("xop", "+", "-", "*")+" "+E(a)), "arith")
		case 1:
			return g.maybe(60, g.expr(ty("Int", "Float"), d)+"."+conv, "native")
		case 2:
			if a != "Float32" && a != "Float64" {
				return g.maybe(70, paren(E(a)+" "+g.oneOf("xop2", "&", "|", "^", "%", "/")+" 3"+map[string]string{"Int8": "i8", "Int64": "i64", "UInt8": "u8"}[a]), "arith")
			}
		}
		return g.literal(a)
	case "Dog", "Cat", "Animal":
		if g.chance(30, "clsid") {
			return g.probe("ident("+g.literal(a)+")", "generic")
		}
		return g.literal(a)
	}
	if isList(a) {
		el := elemOf[a]
		switch g.pick(6, "list") {
		case 0:
			return g.maybe(60, paren(E(a)+" + "+E(a)), "native")
		case 1:
			if el.eq(ty("Int")) {
				return g.maybe(70, E(a)+".map(|x| -> "+g.probe("x", "closure_param")+" + 1)", "generic")
			}
		case 2:
			if el.eq(ty("Int")) {
				return g.maybe(70, E("ArrayList[Int | nil]", "ArrayList[Int]")+".map(|x| -> x ?? 0)", "generic")
			}
		case 3:
			if el.eq(ty("String")) {
				return g.maybe(70, E("ArrayList[Int]", "ArrayList[Float]")+".map(|x| -> x.to_string)", "generic")
			}
		case 4:
			return g.maybe(50, "ident("+E(a)+")", "generic")
		}
		return g.literal(a)
	}
	return g.literal(a)
}

// narrowOp: `v ?? e`, `must v`, `v as T`, `v && ...`, `if v then .. else ..` on a variable that may hold atom a.
func (g *gen) narrowOp(a string, d int) (string, bool) {
	var cands []*Var
	for _, v := range g.vars {
		if v.Cur.has(a) && len(v.Cur) >= 2 {
			cands = append(cands, v)
		}
	}
	if len(cands) == 0 {
		return "", false
	}
	v := cands[g.pick(len(cands), "nv")]
	v.everCond = true
	onlyNil := v.Cur.eq(ty(a, "nil"))
	switch g.pick(6, "nop") {
	case 0:
		if onlyNil {
			return g.probe(paren(v.Name+" ?? "+g.expr(ty(a), d+1)), "narrowed"), true
		}
	case 1:
		if onlyNil && !g.inMeth && g.chance(30, "must") {
			g.flag("may_throw")
			return g.probe(paren("must "+v.Name), "narrowed"), true
		}
	case 2:
		if !strings.Contains(a, "[") && a != "nil" && a != "Bool" && g.chance(30, "as") {
			g.flag("may_throw")
			q := "::Std::" + a
			if a == "Animal" || a == "Dog" || a == "Cat" {
				q = "::" + a
			}
			if g.chance(50, "asunq") {
				q = a // resolved by the checker in the type scopes
			}
			return g.probe(paren(v.Name+" as "+q), "narrowed"), true
		}
	case 3:
		// if-expression with a class test
		if !strings.Contains(a, "[") && a != "nil" && a != "Bool" {
			return g.probe(fmt.Sprintf("(if %s <: %s then %s else %s)", v.Name, a, g.probe(v.Name, "narrowed"), g.expr(ty(a), d+1)), "narrowed"), true
		}
	case 4:
		if onlyNil && a != "Bool" {
			return g.probe(fmt.Sprintf("(if %s then %s else %s)", v.Name, g.probe(v.Name, "narrowed"), g.expr(ty(a), d+1)), "narrowed"), true
		}
	case 5:
		if onlyNil && a != "Bool" {
			return g.probe(fmt.Sprintf("(if !%s then %s else %s)", v.Name, g.expr(ty(a), d+1), g.probe(v.Name, "narrowed")), "narrowed"), true
		}
	}
	return "", false
}

// use emits statements that exercise v at its current (narrowed) type.
func (g *gen) use(v *Var) {
	if len(v.Cur) == 0 {
		// statically unreachable according to the model: a probe here must never run
		g.line("%s", g.probe(v.Name, "narrowed"))
		return
	}
	if v.ClosAsg && v.narrowed() {
		g.flag("closure_assigns_narrowed")
	}
	cat := "local"
	if v.narrowed() {
		cat = "narrowed"
	}
	p := g.probe(v.Name, cat)
	if len(v.Cur) == 1 {
		switch v.Cur[0] {
		case "Int":
			g.line("%s", g.probe(g.oneOf("useint", p+" + 1", "2 * "+p, p+" - 1", "1.5 + "+p, p+" % 3", p+" < 2", "-"+p, p+".to_float"), "arith"))
			return
		case "Float":
			g.line("%s", g.probe(g.oneOf("useflt", p+" + 1.5", "2 * "+p, p+" - 1", p+" / 2", p+" < 2", "-"+p, p+".to_string"), "arith"))
			return
		case "String":
			g.line("%s", g.probe(g.oneOf("usestr", p+` + "!"`, p+".length", p+".uppercase", p+" * 2", p+".is_empty", p+` == "a"`), "native"))
			return
		case "Char":
			g.line("%s", g.probe(g.oneOf("usechr", p+".uppercase", p+".to_string", p+".byte_count"), "native"))
			return
		case "Symbol":
			g.line("%s", g.probe(p+".to_string", "native"))
			return
		case "Bool":
			g.line("%s", g.probe("!"+p, "arith"))
			return
		case "nil":
			g.line("%s", g.probe(p+".to_string", "native"))
			return
		case "Animal", "Dog", "Cat":
			m := g.oneOf("amth", "speak", "legs")
			if v.Cur[0] == "Dog" && g.chance(50, "dogm") {
				m = g.oneOf("dmth", "name", "fetch")
			}
			g.line("%s", g.probe(p+"."+m, "bound"))
			return
		case "BigFloat", "Int8", "Int64", "UInt8", "Float32", "Float64":
			g.line("%s", g.probe(p+" + "+g.literal(v.Cur[0]), "arith"))
			return
		}
		if isList(v.Cur[0]) {
			g.line("%s", g.probe(p+"."+g.oneOf("lm", "length", "is_empty", "try_first", "try_last"), "native"))
			return
		}
		if isMap(v.Cur[0]) {
			g.line("%s", g.probe(p+".length", "native"))
			return
		}
	}
	g.line("%s", p)
}

// ---------------------------------------------------------------- statements

type cond struct {
	text       string
	thenT, elT map[*Var]Ty
	truth      bool // plain truthiness test (`v`, `!v`): the only narrowing that persists after an early exit
}

// classTest: atoms of v.Cur usable on the right of <: / <<: / match
func classAtomsOf(t Ty) []string {
	var out []string
	for _, a := range t {
		if a != "nil" && a != "Bool" && !strings.Contains(a, "[") {
			out = append(out, a)
		}
	}
	return out
}

func truthy(t Ty) Ty { return t.without("nil") }
func falsy(t Ty) Ty {
	var out []string
	if t.has("nil") {
		out = append(out, "nil")
	}
	if t.has("Bool") {
		out = append(out, "Bool")
	}
	return ty(out...)
}

func (g *gen) narrowable() []*Var {
	var out []*Var
	for _, v := range g.vars {
		if len(v.Cur) >= 2 {
			out = append(out, v)
		}
	}
	return out
}

// simpleCond draws a narrowing condition on v.
func (g *gen) simpleCond(v *Var) cond {
	c := cond{thenT: map[*Var]Ty{}, elT: map[*Var]Ty{}}
	cls := classAtomsOf(v.Cur)
	kind := g.pick(10, "ckind")
	if (kind <= 3 || len(cls) == 0) && (v.Cur.has("nil") || v.Cur.has("Bool")) {
		switch g.pick(5, "truth") {
		case 0, 1:
			c.text, c.thenT[v], c.elT[v], c.truth = v.Name, truthy(v.Cur), falsy(v.Cur), true
		case 2:
			c.text, c.thenT[v], c.elT[v], c.truth = "!"+v.Name, falsy(v.Cur), truthy(v.Cur), true
		case 3:
			if v.Cur.has("nil") {
				c.text, c.thenT[v], c.elT[v] = v.Name+" "+g.oneOf("eqnil", "==", "===")+" nil", ty("nil"), v.Cur
			} else {
				c.text, c.thenT[v], c.elT[v] = v.Name, truthy(v.Cur), falsy(v.Cur)
			}
		default:
			if v.Cur.has("nil") {
				c.text, c.thenT[v], c.elT[v] = v.Name+" "+g.oneOf("nenil", "!=", "!==")+" nil", v.Cur, ty("nil")
			} else {
				c.text, c.thenT[v], c.elT[v] = "!"+v.Name, falsy(v.Cur), truthy(v.Cur)
			}
		}
		return c
	}
	if len(cls) == 0 {
		c.text, c.thenT[v], c.elT[v] = g.expr(ty("Bool"), 2), v.Cur, v.Cur
		return c
	}
	a := cls[g.pick(len(cls), "cls")]
	fam := family(a)
	var thenAtoms []string
	for _, x := range v.Cur {
		for _, f := range fam {
			if x == f {
				thenAtoms = append(thenAtoms, x)
			}
		}
	}
	rest := v.Cur.without(fam...)
	switch g.pick(6, "isa") {
	case 0, 1:
		c.text = v.Name + " <: " + a
	case 2:
		c.text = v.Name + " <<: " + a
		thenAtoms = []string{a}
		if a == "Animal" {
			// not sealed: the else-branch keeps the class (instances of subclasses)
			rest = v.Cur
		}
	case 3:
		c.text = "(" + v.Name + " match " + a + "())"
	case 4:
		c.text = a + " :> " + v.Name
	default:
		c.text = "(!(" + v.Name + " <: " + a + "))" // `if !(a <: B)` does not parse without the outer parentheses
		c.thenT[v], c.elT[v] = rest, ty(thenAtoms...)
		return c
	}
	c.thenT[v], c.elT[v] = ty(thenAtoms...), rest
	return c
}

// condition: simple or compound (&&, ||) narrowing condition.
func (g *gen) condition() (cond, []*Var) {
	nv := g.narrowable()
	if len(nv) == 0 {
		return cond{text: g.expr(ty("Bool"), 1), thenT: map[*Var]Ty{}, elT: map[*Var]Ty{}}, nil
	}
	v := nv[g.pick(len(nv), "cv")]
	c := g.simpleCond(v)
	vars := []*Var{v}
	if len(nv) >= 2 && g.chance(30, "compound") {
		w := nv[g.pick(len(nv), "cw")]
		if w != v {
			c2 := g.simpleCond(w)
			vars = append(vars, w)
			if g.chance(50, "andor") {
				c.text = c.text + " && " + c2.text
				c.thenT[w] = c2.thenT[w]
				// else: nothing known
				c.elT[v], c.elT[w] = v.Cur, w.Cur
			} else {
				c.text = c.text + " || " + c2.text
				c.elT[w] = c2.elT[w]
				c.thenT[v], c.thenT[w] = v.Cur, w.Cur
			}
		}
	} else if g.chance(15, "withbool") {
		// a plain Bool on the other side
		b := g.expr(ty("Bool"), 2)
		if g.chance(50, "andor") {
			c.text = c.text + " && " + b
			c.elT[v] = v.Cur
		} else {
			c.text = c.text + " || " + b
			c.thenT[v] = v.Cur
		}
	}
	return c, vars
}

type saved struct {
	v         *Var
	cur       Ty
	d         int
	cond, cld int
}

func (g *gen) apply(m map[*Var]Ty) []saved {
	var s []saved
	for v, t := range m {
		s = append(s, saved{v, v.Cur, v.depth, v.cond, v.condLoopD})
		v.Cur = t
		v.depth = g.loopD
		v.enterCond(g.loopD)
	}
	// deterministic order is irrelevant here: nothing is drawn or printed
	return s
}

func restore(s []saved) {
	for _, x := range s {
		x.v.Cur, x.v.depth, x.v.cond, x.v.condLoopD = x.cur, x.d, x.cond, x.cld
	}
}

// assignedIn tracking: variables assigned while generating a block are widened afterwards
func (g *gen) assign(v *Var, d int) {
	a := v.Decl[g.pick(len(v.Decl), "asgatom")]
	wasNarrow := v.narrowed()
	if v.cond > 0 && g.loopD > v.condLoopD && !g.chance(20, "keeploopasg") {
		// mostly avoided: this shape is a recorded known finding (excluded on the input side)
		return
	}
	if v.cond > 0 && g.loopD > v.condLoopD {
		// assigned in a loop body while narrowed outside of it: uses earlier in the body see the stale type on the next iteration
		g.flag("loop_reassigns_narrowed")
	}
	e := g.expr(ty(a), d)
	if g.nclos < 1 && !g.inMeth && vgen.Pick(g.t, 1024, "closasg") < 12 {
		g.nclos++
		f := fmt.Sprintf("f%d", g.nclos)
		v.ClosAsg = true
		if wasNarrow {
			g.flag("closure_assigns_narrowed")
		}
		g.noProbe++
		e2 := g.expr(ty(a), 3)
		g.noProbe--
		g.line("%s := -> %s = %s", f, v.Name, e2)
		g.line("%s.()", f)
		// the checker does not see this assignment: the model keeps v.Cur
		return
	}
	g.line("%s = %s", v.Name, e)
	if !v.Cur.accepts(a) {
		v.Cur = v.Decl
	}
}

// fill keeps a branch body non-empty (an empty body is a syntax error in some positions)
func (g *gen) fill(mark int) {
	if g.out.Len() == mark {
		g.ind++
		g.line("nil")
		g.ind--
	}
}

func (g *gen) block(n, d int) {
	mark := len(g.vars)
	var snap []saved
	for _, v := range g.vars {
		snap = append(snap, saved{v, v.Cur, v.depth, v.cond, v.condLoopD})
	}
	g.ind++
	for i := 0; i < n && g.budget > 0; i++ {
		g.stmt(d)
	}
	g.ind--
	g.vars = g.vars[:mark]
	// early exits (`break if v`) narrow to the end of the block only
	for _, x := range snap {
		x.v.cond, x.v.condLoopD = x.cond, x.cld
	}
}

func (g *gen) declare() {
	t := g.declType()
	a := t[g.pick(len(t), "init")]
	name := g.newVarName()
	e := g.expr(ty(a), 1)
	v := &Var{Name: name, Decl: t, Cur: t, Mut: true, depth: g.loopD}
	switch g.pick(6, "declkind") {
	case 0:
		g.line("val %s: %s = %s", name, t, e)
		v.Mut = false
	case 1:
		// inferred type: whatever the checker infers for the initialiser; the model assumes the atom
		g.line("%s := %s", name, e)
		v.Decl, v.Cur = ty(a), ty(a)
	default:
		g.line("var %s: %s = %s", name, t, e)
	}
	g.vars = append(g.vars, v)
	g.allVars = append(g.allVars, v)
}

func (g *gen) mutableVars() []*Var {
	var out []*Var
	for _, v := range g.vars {
		if v.Mut {
			out = append(out, v)
		}
	}
	return out
}

func (g *gen) stmt(d int) {
	g.budget--
	if len(g.vars) < 2 {
		g.declare()
		return
	}
	k := g.pick(16, "stmt")
	if d >= 3 && k >= 4 && k <= 9 {
		k = 0
	}
	switch k {
	case 0, 1:
		// probe of an arbitrary expression
		t := g.declType()
		g.line("%s", g.probe(g.expr(t, 0), "expr"))
	case 2:
		g.declare()
	case 3:
		if mv := g.mutableVars(); len(mv) > 0 {
			v := mv[g.pick(len(mv), "asgvar")]
			g.assign(v, 1)
			g.use(v)
		} else {
			g.declare()
		}
	case 4, 5, 6:
		g.ifStmt(d)
	case 7:
		g.whileStmt(d)
	case 8:
		g.switchStmt(d)
	case 9:
		g.forIn(d)
	case 10:
		// use of a narrowable variable as is
		v := g.vars[g.pick(len(g.vars), "usevar")]
		g.use(v)
	case 11:
		g.logicalStmt()
	case 12:
		if g.inMeth && len(g.retTy) > 0 {
			g.earlyReturn()
		} else if g.loopD > 0 && g.chance(50, "brk") {
			g.earlyLoopExit()
		} else {
			g.ifStmt(d)
		}
	case 13:
		g.modifierStmt()
	default:
		g.ifStmt(d)
	}
}

func (g *gen) ifStmt(d int) {
	c, vars := g.condition()
	kw := "if"
	thenT, elT := c.thenT, c.elT
	if g.chance(20, "unless") {
		kw = "unless"
		thenT, elT = elT, thenT
	}
	g.line("%s %s", kw, c.text)
	mark := g.out.Len()
	s := g.apply(thenT)
	g.ind++
	for _, v := range vars {
		g.use(v)
	}
	g.ind--
	g.mutateNarrowed(vars, d)
	g.block(g.pick(3, "thenlen"), d+1)
	restore(s)
	g.fill(mark)
	if g.chance(60, "else") {
		if kw == "if" && g.chance(25, "elsif") {
			nv := g.narrowable()
			if len(nv) > 0 {
				s0 := g.apply(elT)
				v2 := nv[g.pick(len(nv), "elsifv")]
				if len(v2.Cur) >= 2 {
					c2 := g.simpleCond(v2)
					g.line("elsif %s", c2.text)
					s2 := g.apply(c2.thenT)
					g.ind++
					g.use(v2)
					g.ind--
					g.block(g.pick(2, "elsiflen"), d+1)
					restore(s2)
					s3 := g.apply(c2.elT)
					g.line("else")
					g.ind++
					g.use(v2)
					for _, v := range vars {
						g.use(v)
					}
					g.ind--
					restore(s3)
					restore(s0)
					g.line("end")
					g.widenAssigned(vars)
					return
				}
				restore(s0)
			}
		}
		g.line("else")
		mark = g.out.Len()
		s = g.apply(elT)
		g.ind++
		for _, v := range vars {
			g.use(v)
		}
		g.ind--
		g.mutateNarrowed(vars, d)
		g.block(g.pick(3, "ellen"), d+1)
		restore(s)
		g.fill(mark)
	}
	g.line("end")
	g.widenAssigned(vars)
}

// after a compound statement the model forgets what it knew about variables that may have been assigned inside
func (g *gen) widenAssigned(vars []*Var) {
	for _, v := range g.vars {
		if v.Mut {
			v.Cur = v.Decl
		}
	}
}

// mutateNarrowed: inside a narrowed region, change the variable and use it again.
func (g *gen) mutateNarrowed(vars []*Var, d int) {
	if len(vars) == 0 || !g.chance(45, "mutate") {
		return
	}
	v := vars[g.pick(len(vars), "mutv")]
	if !v.Mut {
		return
	}
	g.ind++
	switch g.pick(16, "mutkind") {
	case 0, 1, 2, 3, 6, 7, 8, 9, 10:
		g.assign(v, 2)
		g.use(v)
	case 4:
		// assignment inside a nested loop, use before the assignment
		if d < 3 {
			i := g.newVarName()
			g.line("var %s = 0", i)
			g.line("while %s < 2", i)
			g.loopD++
			g.ind++
			g.use(v)
			g.assign(v, 2)
			g.line("%s += 1", i)
			g.ind--
			g.loopD--
			g.line("end")
			g.use(v)
		}
	default:
		// nested condition on the same variable
		if len(v.Cur) >= 2 {
			c := g.simpleCond(v)
			g.line("if %s", c.text)
			s := g.apply(c.thenT)
			g.ind++
			g.use(v)
			g.ind--
			restore(s)
			g.line("else")
			s = g.apply(c.elT)
			g.ind++
			g.use(v)
			g.ind--
			restore(s)
			g.line("end")
		}
	}
	g.ind--
}

func (g *gen) whileStmt(d int) {
	i := g.newVarName()
	g.line("var %s = 0", i)
	nv := g.narrowable()
	if len(nv) > 0 && g.chance(35, "whilenarrow") {
		// the loop condition itself narrows
		v := nv[g.pick(len(nv), "wv")]
		c := g.simpleCond(v)
		g.line("while %s && %s < 3", c.text, i)
		g.loopD++
		s := g.apply(c.thenT)
		g.ind++
		g.use(v)
		g.line("%s += 1", i)
		if v.Mut && g.chance(60, "wasg") {
			g.assign(v, 2)
			g.use(v)
		}
		g.ind--
		g.block(g.pick(2, "wlen"), d+1)
		restore(s)
		g.loopD--
		g.line("end")
		g.widenAssigned(nil)
		return
	}
	n := 2 + g.pick(2, "iters")
	if g.chance(70, "whilekw") {
		g.line("while %s < %d", i, n)
	} else {
		g.line("until %s >= %d", i, n)
	}
	g.loopD++
	g.ind++
	g.line("%s += 1", i)
	g.ind--
	g.block(1+g.pick(3, "wlen"), d+1)
	g.loopD--
	g.line("end")
	g.widenAssigned(nil)
}

func (g *gen) forIn(d int) {
	l := listAtoms[g.pick(len(listAtoms), "forlist")]
	x := g.newVarName()
	g.line("for %s in %s", x, g.expr(ty(l), 1))
	v := &Var{Name: x, Decl: elemOf[l], Cur: elemOf[l], Mut: false, depth: g.loopD + 1}
	g.vars = append(g.vars, v)
	g.loopD++
	g.ind++
	g.use(v)
	g.ind--
	g.block(1+g.pick(2, "forlen"), d+1)
	g.loopD--
	g.line("end")
	// remove the loop variable
	for i, w := range g.vars {
		if w == v {
			g.vars = append(g.vars[:i], g.vars[i+1:]...)
			break
		}
	}
	g.widenAssigned(nil)
}

func (g *gen) switchStmt(d int) {
	nv := g.narrowable()
	if len(nv) == 0 {
		g.declare()
		return
	}
	v := nv[g.pick(len(nv), "swv")]
	g.line("switch %s", v.Name)
	remaining := v.Cur
	n := 0
	for _, a := range v.Cur {
		if strings.Contains(a, "[") {
			continue
		}
		if !g.chance(75, "case") {
			continue
		}
		var pat string
		var bt Ty
		switch a {
		case "nil":
			pat, bt = "nil", ty("nil")
		case "Bool":
			pat, bt = g.oneOf("boolpat", "true", "false", "Bool()"), ty("Bool")
		default:
			pat = a + "()"
			var in []string
			for _, f := range family(a) {
				if remaining.has(f) {
					in = append(in, f)
				}
			}
			bt = ty(in...)
			if a == "Int" && g.chance(25, "intpat") {
				pat = g.oneOf("ipat", "1", "> 2", "Int() && > 0")
				bt = ty("Int")
			} else if a == "String" && g.chance(25, "strpat") {
				pat = g.oneOf("spat", `"a"`, `String(length: 1)`, `"a" || "foo"`)
				bt = ty("String")
			}
		}
		g.line("case %s", pat)
		s := g.apply(map[*Var]Ty{v: bt})
		g.ind++
		g.use(v)
		g.ind--
		if v.Mut && g.chance(25, "swasg") {
			g.ind++
			g.assign(v, 2)
			g.use(v)
			g.ind--
		}
		g.block(g.pick(2, "caselen"), d+1)
		restore(s)
		n++
	}
	if n == 0 {
		g.line("case nil")
		g.ind++
		g.line("%s", g.probe(v.Name, "narrowed"))
		g.ind--
	}
	if g.chance(70, "swelse") {
		g.line("else")
		s := g.apply(map[*Var]Ty{v: remaining})
		g.ind++
		g.use(v)
		g.ind--
		restore(s)
	}
	g.line("end")
	g.widenAssigned(nil)
}

// logicalStmt: narrowing inside && / || / ?? operands.
func (g *gen) logicalStmt() {
	nv := g.narrowable()
	if len(nv) == 0 {
		g.declare()
		return
	}
	v := nv[g.pick(len(nv), "lv")]
	c := g.simpleCond(v)
	render := func(t Ty) string {
		s := g.apply(map[*Var]Ty{v: t})
		defer restore(s)
		p := g.probe(v.Name, "narrowed")
		if len(t) == 1 {
			switch t[0] {
			case "Int":
				return g.probe(p+" + 1", "arith")
			case "Float":
				return g.probe(p+" * 2.0", "arith")
			case "String":
				return g.probe(p+".length", "native")
			case "Animal", "Dog", "Cat":
				return g.probe(p+".speak", "bound")
			}
		}
		return p
	}
	if v.ClosAsg {
		g.flag("closure_assigns_narrowed")
	}
	if g.chance(50, "land") {
		g.line("%s", g.probe(c.text+" && "+render(c.thenT[v]), "logic"))
	} else {
		g.line("%s", g.probe(c.text+" || "+render(c.elT[v]), "logic"))
	}
}

// modifierStmt: `expr if cond` / `expr unless cond`
func (g *gen) modifierStmt() {
	nv := g.narrowable()
	if len(nv) == 0 {
		g.declare()
		return
	}
	v := nv[g.pick(len(nv), "mv")]
	c := g.simpleCond(v)
	if v.ClosAsg {
		g.flag("closure_assigns_narrowed")
	}
	if g.chance(35, "collmodif") {
		// if / if-else modifier as an element of a list, tuple or set literal: the element expression is
		// checked under the truthy assumption, the else-expression under the falsy one
		s := g.apply(c.thenT)
		p1 := g.probe(v.Name, "narrowed")
		restore(s)
		open, close := "[", "]"
		switch g.pick(3, "collkind") {
		case 1:
			open = "%["
		case 2:
			open = "^["
		}
		if g.chance(70, "collelse") {
			s = g.apply(c.elT)
			p2 := g.probe(v.Name, "narrowed")
			restore(s)
			g.line("%s%s if %s else %s%s", open, p1, c.text, p2, close)
		} else {
			g.line("%s%s if %s%s", open, p1, c.text, close)
		}
		return
	}
	if g.chance(50, "modif") {
		s := g.apply(c.thenT)
		p := g.probe(v.Name, "narrowed")
		restore(s)
		g.line("%s if %s", p, c.text)
	} else {
		s := g.apply(c.elT)
		p := g.probe(v.Name, "narrowed")
		restore(s)
		g.line("%s unless %s", p, c.text)
	}
}

func (g *gen) earlyReturn() {
	nv := g.narrowable()
	if len(nv) == 0 {
		g.declare()
		return
	}
	v := nv[g.pick(len(nv), "rv")]
	c := g.simpleCond(v)
	ret := g.expr(g.retTy, 2)
	if g.chance(50, "retif") {
		g.line("return %s if %s", ret, c.text)
		if c.truth {
			v.Cur = c.elT[v]
		}
	} else {
		g.line("return %s unless %s", ret, c.text)
		if c.truth {
			v.Cur = c.thenT[v]
		}
	}
	v.enterCond(g.loopD)
	g.use(v)
}

func (g *gen) earlyLoopExit() {
	nv := g.narrowable()
	if len(nv) == 0 {
		g.declare()
		return
	}
	v := nv[g.pick(len(nv), "bv")]
	c := g.simpleCond(v)
	kw := g.oneOf("exitkw", "break", "continue")
	if g.chance(50, "brkif") {
		g.line("%s if %s", kw, c.text)
		if c.truth {
			v.Cur = c.elT[v]
		}
	} else {
		g.line("%s unless %s", kw, c.text)
		if c.truth {
			v.Cur = c.thenT[v]
		}
	}
	v.enterCond(g.loopD)
	g.use(v)
}

// ---------------------------------------------------------------- methods and program

const prelude = `class Animal
  def speak: String then "animal"
  def legs: Int then 4
end
class Dog < Animal
  def speak: String then "dog"
  def name: String then "rex"
  def fetch: Int then 1
end
class Cat < Animal
  def speak: String then "cat"
  def legs: Int then 3
end
class Box[T]
  init(@v: T); end
  def get: T then @v
end
def ident[T](x: T): T then x
def pick[T](c: bool, a: T, b: T): T
  if c then a else b
end
def first_or[T](l: ArrayList[T], d: T): T
  l.try_first ?? d
end
`

func (g *gen) method() {
	name := fmt.Sprintf("m%d", len(g.methods)+1)
	np := 1 + g.pick(2, "nparams")
	var params []Ty
	var decls []string
	savedVars := g.vars
	g.vars = nil
	for i := 0; i < np; i++ {
		t := g.declType()
		params = append(params, t)
		pn := fmt.Sprintf("p%d", i+1)
		decls = append(decls, pn+": "+t.String())
		pv := &Var{Name: pn, Decl: t, Cur: t, Mut: true}
		g.vars = append(g.vars, pv)
		g.allVars = append(g.allVars, pv)
	}
	var ret Ty
	switch g.pick(4, "ret") {
	case 0:
		ret = ty(g.atom("r"), "nil")
	case 1:
		ret = ty(g.atom("r"), g.atom("r2"))
	default:
		ret = ty(g.atom("r"))
	}
	g.line("def %s(%s): %s", name, strings.Join(decls, ", "), ret)
	g.inMeth, g.retTy = true, ret
	saveBudget := g.budget
	g.budget = 3 + g.pick(4, "mbudget")
	// methods may only call earlier methods (no recursion)
	g.ind++
	g.earlyReturn()
	g.ind--
	g.block(2+g.pick(3, "mlen"), 1)
	g.ind++
	g.line("%s", g.probe(g.expr(ret, 1), "return"))
	g.ind--
	g.line("end")
	g.budget = saveBudget
	g.inMeth, g.retTy = false, nil
	g.vars = savedVars
	g.methods = append(g.methods, methSig{name, params, ret})
}

// Program draws one program.
func Program(t *rapid.T) (src string, probes []Probe, flags []string) {
	g := &gen{t: t, flags: map[string]bool{}}
	g.out.WriteString(prelude)
	nm := g.pick(3, "nmethods")
	for i := 0; i < nm; i++ {
		g.method()
	}
	g.budget = 6 + g.pick(12, "budget")
	g.ind = -1
	g.block(1000, 0)
	for _, v := range g.allVars {
		if v.ClosAsg && v.everCond {
			// a closure assigns a variable that some condition narrows
			g.flag("closure_assigns_narrowed")
		}
	}
	for f := range g.flags {
		flags = append(flags, f)
	}
	sort.Strings(flags)
	return g.out.String(), g.probes, flags
}
