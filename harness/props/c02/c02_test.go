package c02

// C02 — static types describe runtime values.
//
// Generated, checker-accepted Elk programs in which subexpressions are wrapped as
// `vprobe(k, e)`.  The worker mode "probe" (cmd/elkworker/probe.go) declares the
// generic identity probe, reads the static type of every probe ARGUMENT from the
// checked tree and, at run time, checks every value handed to a probe against the
// static type of its site (verif/internal/conform: conservative, unsure => conforms).

import (
	"encoding/json"
	"fmt"
	"os"
	"regexp"
	"sort"
	"strconv"
	"strings"
	"testing"
	"time"

	"pgregory.net/rapid"

	"verif/internal/pbt"
	sb "verif/internal/sandbox"
)

func TestMain(m *testing.M) { pbt.Main(m, "C02") }

type Case struct {
	Src    string   `json:"src"`
	Probes []Probe  `json:"probes,omitempty"`
	Flags  []string `json:"flags,omitempty"`
}

func (c Case) has(flag string) bool {
	for _, f := range c.Flags {
		if f == flag {
			return true
		}
	}
	return false
}

var worker *sb.Worker

// known findings (design level)
const (
	kClosure = "narrowing-survives-closure-assignment"
	kLoop    = "narrowing-survives-loop-back-edge"
)

func genCase(t *rapid.T) Case {
	src, probes, flags := Program(t)
	return Case{Src: src, Probes: probes, Flags: flags}
}

type violation struct {
	ID     int    `json:"id"`
	Static string `json:"static"`
	Value  string `json:"value"`
	Class  string `json:"class"`
	Why    string `json:"why"`
}

type extra struct {
	Probes     int               `json:"probes"`
	Sites      int               `json:"sites"`
	Executed   []int             `json:"executed"`
	Static     map[string]string `json:"static"`
	Kinds      map[string]string `json:"kinds"`
	Violations []violation       `json:"violations"`
	Unknown    []int             `json:"unknown"`
}

// exprOf finds the text of probe id: from the generator's record, else from the source.
func exprOf(c Case, id int) (string, string) {
	for _, p := range c.Probes {
		if p.ID == id {
			// the record is only valid if the source still contains it (minimised cases)
			if strings.Contains(c.Src, fmt.Sprintf("vprobe(%d, %s)", id, p.Expr)) {
				return p.Expr, p.Cat
			}
		}
	}
	key := fmt.Sprintf("vprobe(%d, ", id)
	i := strings.Index(c.Src, key)
	if i < 0 {
		return "?", "?"
	}
	depth, j := 1, i+len(key)
	for ; j < len(c.Src) && depth > 0; j++ {
		switch c.Src[j] {
		case '(':
			depth++
		case ')':
			depth--
		}
	}
	cat := "?"
	for _, p := range c.Probes {
		if p.ID == id {
			cat = p.Cat
		}
	}
	return c.Src[i+len(key) : j-1], cat
}

var digits = regexp.MustCompile(`[0-9]+`)

func diagSig(d sb.Diag) string {
	m := d.Msg
	m = regexp.MustCompile("`[^`]*`").ReplaceAllString(m, "`_`")
	m = digits.ReplaceAllString(m, "N")
	if len(m) > 70 {
		m = m[:70]
	}
	return m
}

func oracle(c Case, ctx *pbt.Ctx) error {
	res := worker.Do(sb.Req{Mode: "probe", Source: c.Src}, 40*time.Second)
	class, detail := sb.Classify(res)
	ctx.Label("outcome:" + class)
	switch class {
	case sb.Timeout:
		pbt.Inconclusive()
		return nil
	case sb.Rejected:
		// the checker arbitrates: a rejected program is discarded (counted)
		for _, d := range res.Resp.Runs[0].Diags {
			if d.Severity == "FAIL" {
				ctx.Label("rejected: " + diagSig(d))
				dump("rejected", fmt.Sprintf("%d:%d %s", d.Line, d.Col, d.Msg), c.Src)
				break
			}
		}
		return nil
	case sb.Fatal:
		return fmt.Errorf("the interpreter died on an accepted program (a value reached code chosen for another type, or a crash C01 owns):\n%s", clip(detail, 2500))
	case sb.StackLimit:
		return nil
	}
	run := res.Resp.Runs[0]
	var ex extra
	if run.Extra != nil {
		b, _ := json.Marshal(run.Extra)
		_ = json.Unmarshal(b, &ex)
	}
	if len(ex.Violations) > 0 {
		v := ex.Violations[0]
		e, cat := exprOf(c, v.ID)
		return fmt.Errorf("probe %d (%s): expression `%s` has static type `%s` but evaluated to %s (class %s): %s  [%d violating probe values in this run]",
			v.ID, cat, e, v.Static, v.Value, v.Class, v.Why, len(ex.Violations))
	}
	if class == sb.GoPanic {
		return fmt.Errorf("Go panic in the VM on an accepted program (a value reached code chosen for another type, or a crash C01 owns):\n%s", clip(detail, 2500))
	}
	if len(ex.Unknown) > 0 {
		return fmt.Errorf("HARNESS: probes %v were executed but not found in the checked tree", ex.Unknown)
	}
	if class == sb.ElkError && run.ErrClass == "Std::NoConstantError" {
		return fmt.Errorf("a constant the checker resolved is undefined at run time (the run-time operand of a type test or cast is not the class the checker used): %s\n%s", run.ErrInspect, clip(run.Stderr, 600))
	}
	if class == sb.ElkError {
		ctx.Label("elk_error:" + run.ErrClass)
		dump("elk_error", run.ErrInspect+"\n"+run.Stderr, c.Src)
	}
	// classification
	cats := map[int]string{}
	for _, p := range c.Probes {
		cats[p.ID] = p.Cat
	}
	nontrivial := false
	seenK, seenC := map[string]bool{}, map[string]bool{}
	for _, id := range ex.Executed {
		k := ex.Kinds[strconv.Itoa(id)]
		if k != "literal" && k != "any" && k != "void" && k != "untyped" && k != "" {
			nontrivial = true
		}
		if !seenK[k] {
			seenK[k] = true
			ctx.Label("kind:" + k)
		}
		if cat := cats[id]; cat != "" && !seenC[cat] {
			seenC[cat] = true
			ctx.Label("cat:" + cat)
		}
	}
	var fl []string
	fl = append(fl, c.Flags...)
	sort.Strings(fl)
	for _, f := range fl {
		ctx.Label("flag:" + f)
	}
	switch n := len(ex.Executed); {
	case n == 0:
		ctx.Label("executed_sites:0")
	case n < 5:
		ctx.Label("executed_sites:1-4")
	case n < 20:
		ctx.Label("executed_sites:5-19")
	default:
		ctx.Label("executed_sites:20+")
	}
	if nontrivial {
		ctx.NonTrivial(c.Src)
	}
	return nil
}

// dump: developer aid (C02_DUMP=<dir>): keeps rejected programs and runtime errors for tuning the generator
func dump(kind, what, src string) {
	dir := os.Getenv("C02_DUMP")
	if dir == "" {
		return
	}
	_ = os.MkdirAll(dir, 0o755)
	f, err := os.OpenFile(dir+"/"+kind+".txt", os.O_APPEND|os.O_CREATE|os.O_WRONLY, 0o644)
	if err != nil {
		return
	}
	defer f.Close()
	fmt.Fprintf(f, "==== %s\n%s\n", what, src)
}

func clip(s string, n int) string {
	if len(s) > n {
		return s[:n] + "…"
	}
	return s
}

// failClass buckets an oracle error so that reduction keeps the same kind of failure.
var staticRe = regexp.MustCompile("has static type `([^`]*)` but evaluated to .* \\(class ([^)]*)\\)")

func failClass(err error) string {
	if err == nil {
		return ""
	}
	m := err.Error()
	if sm := staticRe.FindStringSubmatch(m); sm != nil {
		return "probe:" + sm[1] + ":" + sm[2]
	}
	for _, k := range []string{"interpreter died", "Go panic", "HARNESS", "undefined at run time"} {
		if strings.Contains(m, k) {
			return k
		}
	}
	return "other"
}

// minimize deletes lines (and balanced blocks) while the same kind of failure remains.
func minimize(c Case) Case {
	want := failClass(oracle(c, &pbt.Ctx{}))
	if want == "" {
		return c
	}
	lines := strings.Split(strings.TrimRight(c.Src, "\n"), "\n")
	calls := 0
	fails := func(ls []string) bool {
		if calls > 400 {
			return false
		}
		calls++
		cc := Case{Src: strings.Join(ls, "\n") + "\n", Probes: c.Probes, Flags: c.Flags}
		return failClass(oracle(cc, &pbt.Ctx{})) == want
	}
	indent := func(s string) int { return len(s) - len(strings.TrimLeft(s, " ")) }
	opener := regexp.MustCompile(`^\s*(if|unless|while|until|for|switch|def|class|loop)\b`)
	for changed := true; changed; {
		changed = false
		for i := len(lines) - 1; i >= 0; i-- {
			if i >= len(lines) {
				continue
			}
			// a whole block: opener line .. matching `end` at the same indentation
			if opener.MatchString(lines[i]) {
				for j := i + 1; j < len(lines); j++ {
					if indent(lines[j]) == indent(lines[i]) && strings.TrimSpace(lines[j]) == "end" {
						cand := append(append([]string{}, lines[:i]...), lines[j+1:]...)
						if fails(cand) {
							lines, changed = cand, true
						} else {
							// keep the body, drop the frame (opener, else-branches are left alone)
							cand2 := append(append(append([]string{}, lines[:i]...), lines[i+1:j]...), lines[j+1:]...)
							if fails(cand2) {
								lines, changed = cand2, true
							}
						}
						break
					}
				}
				continue
			}
			cand := append(append([]string{}, lines[:i]...), lines[i+1:]...)
			if fails(cand) {
				lines, changed = cand, true
			}
		}
	}
	out := Case{Src: strings.Join(lines, "\n") + "\n", Flags: c.Flags}
	for _, p := range c.Probes {
		if strings.Contains(out.Src, fmt.Sprintf("vprobe(%d, %s)", p.ID, p.Expr)) {
			out.Probes = append(out.Probes, p)
		}
	}
	return out
}

func TestStaticTypes(t *testing.T) {
	pbt.Rule("static_types", "type-directed Elk programs (unions/nilables over Int, Float, String, Char, Symbol, Bool, nil, BigFloat, fixed-width numbers, a user class hierarchy, ArrayList/HashMap instantiations; generic methods/classes; user methods with early-return narrowing) whose statements are biased to narrowing: if/unless/elsif/while/switch/modifier/&&/||/??/must/as conditions on locals (truthiness, == nil, <:, <<:, :>, match), followed by uses at the narrowed type, reassignment (direct, in a closure, in a loop), std native calls, statically bound calls and mixed arithmetic; every probe argument's runtime value must conform to its static type read from the checked tree; non-trivial = at least one executed probe whose static type is not a literal type, any, void or untyped; distinct by source")
	worker = sb.New("debug")
	defer worker.Close()
	pbt.Run(t, pbt.Prop[Case]{
		Name: "static_types", Quick: 1600, Thorough: 16000, Gen: genCase, Oracle: oracle, Minimize: minimize,
		Known: []pbt.Known[Case]{
			{Key: kClosure, Match: func(c Case) bool { return c.has("closure_assigns_narrowed") }},
			{Key: kLoop, Match: func(c Case) bool { return c.has("loop_reassigns_narrowed") }},
		},
		Sample: func(c Case) any { return map[string]any{"src": c.Src, "flags": c.Flags} },
	})
}
