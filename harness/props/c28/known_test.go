package c28

// Recorded known findings (status "known" in known_findings.json): narrow, input-side
// exclusions by entry key.  The lists are the exact entries observed on the pinned tree
// after the fix: commits; anything else still fails the check.

import "strings"

// slug -> entry keys ("NS#method" / "NS.method")
var knownTable = map[string][]string{
	// declared in the headers, no native registered anywhere (upstream incompleteness)
	"unimplemented-natives": {
		"Std::ArrayList#view",
		"Std::ArrayTuple#view",
		"Std::Closure#location",
		"Std::DiagnosticList#at",
		"Std::DiagnosticList#clear",
		"Std::DiagnosticList#grow",
		"Std::DiagnosticList#map_mut",
		"Std::DiagnosticList#remove",
		"Std::Elk::AST::BigFloatLiteralNode#to_bigfloat",
		"Std::Elk::AST::ClassDeclarationNode#doc_comment",
		"Std::Elk::AST::InitDefinitionNode#doc_comment",
		"Std::Elk::AST::InstanceValueDeclarationNode#doc_comment",
		"Std::Elk::AST::InstanceVariableDeclarationNode#doc_comment",
		"Std::Elk::AST::Node#location",
		"Std::Elk::AST::Node#to_string",
		"Std::Elk::AST::SimpleSymbolLiteralNode#to_ast_ident_node",
		"Std::Elk::Token#fetch_value",
		"Std::Float#to_bigfloat",
		"Std::Float32#to_bigfloat",
		"Std::Float64#to_bigfloat",
		"Std::HashSet#clear",
		"Std::Int#to_uint",
		"Std::List#map_mut",
		"Std::Map#map_pairs",
		"Std::Pair#at",
		"Std::Pair#iter",
		"Std::Pair::Iterator#next",
		"Std::Pair::Iterator#reset",
		"Std::Record#map_pairs",
		"Std::Sync::DiagnosticList#at",
		"Std::Sync::DiagnosticList#clear",
		"Std::Sync::DiagnosticList#diagnostic_list",
		"Std::Sync::DiagnosticList#grow",
		"Std::Sync::DiagnosticList#map_mut",
		"Std::Sync::DiagnosticList#remove",
		"Std::Sync::DiagnosticList#view",
		"Std::Sync::RWMutex#to_read_only",
		"Std::Time::Span.since",
		"Std::Time::Span.until",
		"Std::Value#=~",
	},
	// constructors declared with parameters for classes that have no runtime `#init`
	// (opInstantiate then leaves the arguments on the stack)
	"init-without-runtime-initialiser": {
		"Std::ArrayList::Iterator##init",
		"Std::ArrayTuple::Iterator##init",
		"Std::ClosedRange::Iterator##init",
		"Std::DiagnosticList::Iterator##init",
		"Std::EndlessClosedRange::Iterator##init",
		"Std::EndlessOpenRange::Iterator##init",
		"Std::HashMap::Iterator##init",
		"Std::HashRecord::Iterator##init",
		"Std::HashSet::Iterator##init",
		"Std::LeftOpenRange::Iterator##init",
		"Std::OpenRange::Iterator##init",
		"Std::Pair::Iterator##init",
		"Std::RightOpenRange::Iterator##init",
		"Std::StackTrace::Iterator##init",
		"Std::String::ByteIterator##init",
		"Std::String::CharIterator##init",
		"Std::String::GraphemeIterator##init",
		"Std::Sync::DiagnosticList::Iterator##init",
	},
	// namespaces declared in the headers without any runtime constant
	"missing-runtime-namespace": {
		"Std::Elk::AST::BinaryTypeNode##init",
		"Std::Elk::AST::BinaryTypeNode#left",
		"Std::Elk::AST::BinaryTypeNode#location",
		"Std::Elk::AST::BinaryTypeNode#op",
		"Std::Elk::AST::BinaryTypeNode#right",
		"Std::Elk::AST::RegexInterpolationNode##init",
		"Std::Elk::AST::RegexInterpolationNode#expression",
		"Std::Elk::AST::RegexInterpolationNode#location",
		"Std::ImmutableSet#&",
		"Std::ImmutableSet#+",
		"Std::ImmutableSet#map",
		"Std::ImmutableSet#|",
	},
}

var knownTableIndex = map[string]string{}

func init() {
	for slug, keys := range knownTable {
		for _, k := range keys {
			knownTableIndex[strings.TrimSpace(k)] = slug
		}
	}
}
