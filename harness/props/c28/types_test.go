package c28

// Type-level helpers: type-parameter environments, ancestor walk with
// type-argument composition, and the harness-side `conforms(value, type)`
// (independent of the checker's isSubtype).

import (
	"fmt"
	"math/big"
	"strconv"
	"strings"

	"github.com/elk-language/elk/types"
	"github.com/elk-language/elk/value"
	"github.com/elk-language/elk/vm"
)

// tyEnv binds type parameters (by "<namespace>::<name>") to a type that is to
// be read in another environment (the includer's), plus `self`.
type tyEnv struct {
	m       map[string]bound
	self    types.Type // type of the receiver (nil = unknown)
	selfEnv *tyEnv
}

type bound struct {
	t types.Type
	e *tyEnv
}

func newEnv() *tyEnv { return &tyEnv{m: map[string]bound{}} }

func tpKey(tp *types.TypeParameter) string {
	if tp.Namespace != nil {
		if _, ok := tp.Namespace.(*types.TypeParamNamespace); ok {
			return "@" + tp.Name.String() // method-level type parameter
		}
		return tp.Namespace.Name() + "::" + tp.Name.String()
	}
	return "@" + tp.Name.String()
}

func (e *tyEnv) lookup(tp *types.TypeParameter) (bound, bool) {
	if e == nil {
		return bound{}, false
	}
	b, ok := e.m[tpKey(tp)]
	return b, ok
}

// bindArgs: environment for the members of generic namespace ns instantiated with args (read in outer).
func bindArgs(ns types.Namespace, args *types.TypeArguments, outer *tyEnv) *tyEnv {
	e := newEnv()
	if outer != nil {
		e.self, e.selfEnv = outer.self, outer.selfEnv
	}
	if args == nil {
		return e
	}
	for _, tp := range ns.TypeParameters() {
		if a, ok := args.ArgumentMap[tp.Name]; ok && a != nil {
			e.m[tpKey(tp)] = bound{a.Type, outer}
		}
	}
	return e
}

// ancestors calls out for every namespace whose own methods an instance of ns
// inherits (ns itself first), with the environment its signatures are read in.
// Conditional includes (`extend where`) are not followed.
func ancestors(ns types.Namespace, e *tyEnv, out func(decl types.Namespace, e *tyEnv)) {
	for cur := ns; cur != nil; cur = cur.Parent() {
		switch c := cur.(type) {
		case *types.Class:
			out(c, e)
		case *types.SingletonClass:
			out(c, e)
		case *types.Mixin:
			out(c, e)
		case *types.Module:
			out(c, e)
		case *types.MixinWithWhere:
			// conditional: skipped
		case *types.MixinProxy:
			ne := newEnv()
			ne.self, ne.selfEnv = e.self, e.selfEnv
			ancestors(c.Mixin, ne, out)
		case *types.Generic:
			switch g := c.Namespace.(type) {
			case *types.MixinProxy:
				ancestors(g.Mixin, bindArgs(g.Mixin, c.TypeArguments, e), out)
			case *types.Class:
				// generic superclass: its chain continues through g.Parent()
				ancestors(g, bindArgs(g, c.TypeArguments, e), out)
				return
			}
		case *types.InterfaceProxy:
			// abstract signatures only
		}
	}
}

func fullName(t types.Type) string {
	switch n := t.(type) {
	case *types.Class:
		return n.Name()
	case *types.Mixin:
		return n.Name()
	case *types.Interface:
		return n.Name()
	case *types.Module:
		return n.Name()
	}
	return ""
}

func runtimeClass(name string) *value.Class {
	rv := value.RootModule.Constants.Get(value.ToSymbol(name))
	if rv.IsUndefined() {
		return nil
	}
	c, _ := rv.SafeAsReference().(*value.Class)
	return c
}

// typeArgsOf returns the positional type arguments of a Generic.
func typeArgsOf(g *types.Generic) []types.Type {
	var out []types.Type
	if g.TypeArguments == nil {
		return nil
	}
	for _, name := range g.ArgumentOrder {
		if a := g.ArgumentMap[name]; a != nil {
			out = append(out, a.Type)
		} else {
			out = append(out, types.Any{})
		}
	}
	return out
}

type confCtx struct {
	th    *vm.Thread
	depth int
	why   string // first reason of non-conformance (innermost)
}

func (c *confCtx) fail(format string, a ...any) bool {
	if c.why == "" {
		c.why = fmt.Sprintf(format, a...)
	}
	return false
}

const maxElems = 64 // element-wise checks look at the first maxElems elements

// conforms decides conservatively whether the runtime value is an instance of
// the static type read in environment e.  Unsure => true.
func conforms(c *confCtx, v value.Value, t types.Type, e *tyEnv) bool {
	if c.depth > 12 {
		return true
	}
	c.depth++
	defer func() { c.depth-- }()
	if v.IsUndefined() {
		return c.fail("value is undefined (no Elk value)")
	}
	switch tt := t.(type) {
	case nil:
		return true
	case types.Any, types.Void, types.Untyped, types.NoValue:
		return true
	case types.Never:
		return c.fail("a value %s was produced where the declared type is never", insp(v))
	case types.Nil:
		if v.IsNil() {
			return true
		}
		return c.fail("%s is not nil", insp(v))
	case types.Bool:
		if v.IsTrue() || v.IsFalse() {
			return true
		}
		return c.fail("%s is not a bool", insp(v))
	case types.True:
		if v.IsTrue() {
			return true
		}
		return c.fail("%s is not true", insp(v))
	case types.False:
		if v.IsFalse() {
			return true
		}
		return c.fail("%s is not false", insp(v))
	case types.Self:
		if e != nil && e.self != nil {
			return conforms(c, v, e.self, e.selfEnv)
		}
		return true
	case *types.NamedType:
		return conforms(c, v, tt.Type, e)
	case *types.GenericNamedType:
		return true
	case *types.Nilable:
		if v.IsNil() {
			return true
		}
		return conforms(c, v, tt.Type, e)
	case *types.Union:
		for _, el := range tt.Elements {
			sub := &confCtx{th: c.th, depth: c.depth}
			if conforms(sub, v, el, e) {
				return true
			}
		}
		return c.fail("%s (%s) is in no member of the union %s", insp(v), v.Class().Name, types.Inspect(t))
	case *types.Intersection:
		for _, el := range tt.Elements {
			if !conforms(c, v, el, e) {
				return false
			}
		}
		return true
	case *types.Not:
		if hasFreeOrLoose(tt.Type, e) {
			return true
		}
		sub := &confCtx{th: c.th, depth: c.depth}
		if conforms(sub, v, tt.Type, e) {
			return c.fail("%s conforms to %s, excluded by %s", insp(v), types.Inspect(tt.Type), types.Inspect(t))
		}
		return true
	case *types.TypeParameter:
		if b, ok := e.lookup(tt); ok {
			return conforms(c, v, b.t, b.e)
		}
		return true
	case *types.Class:
		return conformsClass(c, v, tt.Name())
	case *types.Mixin:
		return conformsClass(c, v, tt.Name())
	case *types.Module:
		return true
	case *types.Interface:
		return conformsInterface(c, v, tt)
	case *types.InterfaceProxy:
		return conformsInterface(c, v, tt.Interface)
	case *types.Generic:
		return conformsGeneric(c, v, tt, e)
	case *types.SingletonClass:
		// the class object itself (or a subclass object)
		name := tt.AttachedObject.Name()
		rc := runtimeClass(name)
		if rc == nil {
			return true
		}
		got, ok := v.SafeAsReference().(*value.Class)
		if !ok {
			if _, isMod := v.SafeAsReference().(*value.Module); isMod {
				return true
			}
			return c.fail("%s is not the class object %s", insp(v), name)
		}
		for p := range got.Parents() {
			if p == rc {
				return true
			}
		}
		return c.fail("class object %s is not %s or a subclass", got.Name, name)
	case *types.InstanceOf, *types.SingletonOf:
		return true
	case *types.Callable:
		return true
	case *types.IntLiteral:
		b, ok := new(big.Int).SetString(strings.ReplaceAll(tt.Value, "_", ""), 0)
		if !ok {
			return true
		}
		if v.IsSmallInt() {
			if b.IsInt64() && int64(v.AsSmallInt()) == b.Int64() {
				return true
			}
			return c.fail("%s is not the literal %s", insp(v), tt.Value)
		}
		if bi, ok := v.SafeAsReference().(*value.BigInt); ok {
			if bi.ToGoBigInt().Cmp(b) == 0 {
				return true
			}
		}
		return c.fail("%s is not the literal %s", insp(v), tt.Value)
	case *types.StringLiteral:
		if s, ok := v.SafeAsReference().(value.String); ok && string(s) == tt.Value {
			return true
		}
		return c.fail("%s is not the literal %q", insp(v), tt.Value)
	case *types.SymbolLiteral:
		if v.IsInlineSymbol() && v.AsInlineSymbol().String() == tt.Value {
			return true
		}
		return c.fail("%s is not the literal :%s", insp(v), tt.Value)
	case *types.CharLiteral:
		if v.IsChar() && rune(v.AsChar()) == tt.Value {
			return true
		}
		return c.fail("%s is not the literal char %q", insp(v), tt.Value)
	case *types.FloatLiteral:
		f, err := strconv.ParseFloat(strings.ReplaceAll(tt.Value, "_", ""), 64)
		if err != nil || !v.IsFloat() {
			return conformsClass(c, v, "Std::Float")
		}
		if float64(v.AsFloat()) == f {
			return true
		}
		return c.fail("%s is not the literal %s", insp(v), tt.Value)
	}
	return true // unknown type node: unsure => conforms
}

// hasFreeOrLoose: the type contains something conforms() accepts unconditionally,
// so a negative result under `not` would be unsound.
func hasFreeOrLoose(t types.Type, e *tyEnv) bool {
	switch tt := t.(type) {
	case *types.Class, *types.Mixin, types.Nil, types.Bool, types.True, types.False:
		return false
	case *types.Nilable:
		return hasFreeOrLoose(tt.Type, e)
	case *types.Union:
		for _, el := range tt.Elements {
			if hasFreeOrLoose(el, e) {
				return true
			}
		}
		return false
	case *types.NamedType:
		return hasFreeOrLoose(tt.Type, e)
	}
	return true
}

func insp(v value.Value) (s string) {
	defer func() {
		if r := recover(); r != nil {
			s = fmt.Sprintf("<Inspect panicked: %v>", r)
		}
	}()
	s = v.Inspect()
	if len(s) > 160 {
		s = s[:160] + "…"
	}
	return s
}

func conformsClass(c *confCtx, v value.Value, name string) bool {
	switch name {
	case "Std::Value", "Std::Object":
		return true
	case "Std::Bool":
		if v.IsTrue() || v.IsFalse() {
			return true
		}
		return c.fail("%s is not a Bool", insp(v))
	}
	rc := runtimeClass(name)
	if rc == nil {
		return true // no runtime counterpart: cannot decide here (reported by the enumeration)
	}
	if value.IsA(v, rc) {
		return true
	}
	return c.fail("%s (class %s) is not an instance of %s", insp(v), v.Class().Name, name)
}

// interfaces are structural: accepted (conservative)
func conformsInterface(c *confCtx, v value.Value, i *types.Interface) bool { return true }

func conformsGeneric(c *confCtx, v value.Value, g *types.Generic, e *tyEnv) bool {
	var base string
	switch n := g.Namespace.(type) {
	case *types.Class:
		base = n.Name()
		if !conformsClass(c, v, base) {
			return false
		}
	case *types.Mixin:
		base = n.Name()
		if !conformsClass(c, v, base) {
			return false
		}
	case *types.Interface:
		base = n.Name()
		if !conformsInterface(c, v, n) {
			return false
		}
	case *types.MixinProxy:
		base = n.Mixin.Name()
	default:
		return true
	}
	args := typeArgsOf(g)
	ref := v.SafeAsReference()
	switch base {
	case "Std::ArrayList", "Std::ArrayTuple", "Std::List", "Std::Tuple", "Std::HashSet", "Std::Set", "Std::ImmutableSet",
		"Std::Collection", "Std::ImmutableCollection":
		if len(args) < 1 {
			return true
		}
		switch ref.(type) {
		case *value.ArrayListOfValue, *value.ArrayTupleOfValue, *vm.HashSetOfValue:
		default:
			return true // other implementations (ranges, lazy iterables…): not walked
		}
		n := 0
		for el, err := range vm.Iterate(c.th, v) {
			if !err.IsUndefined() {
				return true
			}
			if !conforms(c, el, args[0], e) {
				return c.fail("element %d of %s: %s", n, types.Inspect(g), c.why)
			}
			if n++; n >= maxElems {
				break
			}
		}
	case "Std::HashMap", "Std::HashRecord", "Std::Map", "Std::Record":
		if len(args) < 2 {
			return true
		}
		switch ref.(type) {
		case *vm.HashMapOfValue, *vm.HashRecordOfValue:
		default:
			return true
		}
		n := 0
		for el, err := range vm.Iterate(c.th, v) {
			if !err.IsUndefined() {
				return true
			}
			p, ok := el.SafeAsReference().(value.Pair)
			if !ok {
				return true
			}
			if !conforms(c, p.Key(), args[0], e) {
				return c.fail("key %d of %s: %s", n, types.Inspect(g), c.why)
			}
			if !conforms(c, p.Value(), args[1], e) {
				return c.fail("value %d of %s: %s", n, types.Inspect(g), c.why)
			}
			if n++; n >= maxElems {
				break
			}
		}
	case "Std::Pair":
		if len(args) < 2 {
			return true
		}
		if p, ok := ref.(value.Pair); ok {
			if !conforms(c, p.Key(), args[0], e) {
				return c.fail("key of %s: %s", types.Inspect(g), c.why)
			}
			if !conforms(c, p.Value(), args[1], e) {
				return c.fail("value of %s: %s", types.Inspect(g), c.why)
			}
		}
	case "Std::ClosedRange", "Std::OpenRange", "Std::LeftOpenRange", "Std::RightOpenRange":
		if len(args) < 1 {
			return true
		}
		var s, en value.Value
		switch r := ref.(type) {
		case *value.ClosedRange:
			s, en = r.Start, r.End
		case *value.OpenRange:
			s, en = r.Start, r.End
		case *value.LeftOpenRange:
			s, en = r.Start, r.End
		case *value.RightOpenRange:
			s, en = r.Start, r.End
		default:
			return true
		}
		if !conforms(c, s, args[0], e) || !conforms(c, en, args[0], e) {
			return c.fail("bound of %s: %s", types.Inspect(g), c.why)
		}
	}
	return true
}
