package c28

// Header-side method table: every method the type environment (built from
// headers/*.elh through types/headers.go) declares, with the runtime method
// container that has to resolve it.

import (
	"fmt"
	"sort"
	"strings"

	"github.com/elk-language/elk/types"
	"github.com/elk-language/elk/value"
)

// entry is one declared method (own methods of one namespace only).
type entry struct {
	NS        string // full constant path of the declaring namespace, e.g. "Std::Int"
	Singleton bool   // declared on the singleton class of NS
	Name      string
	kind      string // class | mixin | module | interface
	ns        types.Namespace
	m         *types.Method
}

func (e *entry) String() string {
	sep := "#"
	if e.Singleton {
		sep = "."
	}
	return e.NS + sep + e.Name
}

func entryKey(ns string, singleton bool, name string) string {
	if singleton {
		return ns + "." + name
	}
	return ns + "#" + name
}

var (
	tenv       *types.GlobalEnvironment
	table      []*entry          // sorted by key: deterministic
	tableIndex map[string]*entry // entryKey -> entry
	nsByPath   = map[string]types.Namespace{}
)

func nsKind(ns types.Namespace) string {
	switch ns.(type) {
	case *types.Class:
		return "class"
	case *types.Mixin:
		return "mixin"
	case *types.Module:
		return "module"
	case *types.Interface:
		return "interface"
	case *types.SingletonClass:
		return "singleton"
	}
	return fmt.Sprintf("%T", ns)
}

func sortedMethodNames(ns types.Namespace) []string {
	var names []string
	for n := range ns.Methods() {
		names = append(names, n.String())
	}
	sort.Strings(names)
	return names
}

// buildTable walks the namespace tree under the root of the type environment.
func buildTable(env *types.GlobalEnvironment) {
	tenv = env
	table = nil
	tableIndex = map[string]*entry{}
	seen := map[types.Namespace]bool{}
	var walk func(ns types.Namespace, path string)
	walk = func(ns types.Namespace, path string) {
		if seen[ns] {
			return
		}
		seen[ns] = true
		nsByPath[path] = ns
		kind := nsKind(ns)
		for _, n := range sortedMethodNames(ns) {
			m := ns.Methods()[value.ToSymbol(n)]
			table = append(table, &entry{NS: path, Name: n, kind: kind, ns: ns, m: m})
		}
		if s := ns.Singleton(); s != nil {
			for _, n := range sortedMethodNames(s) {
				m := s.Methods()[value.ToSymbol(n)]
				table = append(table, &entry{NS: path, Singleton: true, Name: n, kind: kind, ns: s, m: m})
			}
		}
		var names []string
		for name := range ns.Subtypes() {
			names = append(names, name.String())
		}
		sort.Strings(names)
		for _, n := range names {
			c, _ := ns.SubtypeString(n)
			switch sub := c.Type.(type) {
			case *types.Class, *types.Mixin, *types.Module, *types.Interface:
				p := n
				if path != "" {
					p = path + "::" + n
				}
				walk(sub.(types.Namespace), p)
			}
		}
	}
	walk(env.Root, "")
	sort.SliceStable(table, func(i, j int) bool {
		return entryKey(table[i].NS, table[i].Singleton, table[i].Name) < entryKey(table[j].NS, table[j].Singleton, table[j].Name)
	})
	for _, e := range table {
		tableIndex[entryKey(e.NS, e.Singleton, e.Name)] = e
	}
}

// runtimeContainer returns the runtime class whose LookupMethod is what a call
// on a receiver of the declaring type dispatches through.
func runtimeContainer(e *entry) (*value.Class, string) {
	rv := value.RootModule.Constants.Get(value.ToSymbol(e.NS))
	if rv.IsUndefined() {
		return nil, fmt.Sprintf("no runtime constant %s (the header declares a %s of that name)", e.NS, e.kind)
	}
	switch r := rv.SafeAsReference().(type) {
	case *value.Class: // classes and mixins
		if e.kind != "class" && e.kind != "mixin" {
			return nil, fmt.Sprintf("runtime constant %s is a class/mixin, the header declares a %s", e.NS, e.kind)
		}
		if e.Singleton {
			return r.DirectClass(), ""
		}
		return r, ""
	case *value.Module:
		if e.kind != "module" {
			return nil, fmt.Sprintf("runtime constant %s is a module, the header declares a %s", e.NS, e.kind)
		}
		// methods declared on a module are called on the module object
		return r.DirectClass(), ""
	case *value.Interface:
		return nil, "interface"
	}
	return nil, fmt.Sprintf("runtime constant %s is a %T", e.NS, rv.SafeAsReference())
}

// skipReason: methods that have no runtime method object by design.
func skipReason(e *entry) string {
	switch {
	case e.m.IsMacro():
		return "macro" // expanded at compile time, lives in the macro environment
	case e.m.IsAbstract():
		return "abstract"
	case e.kind == "interface":
		return "interface" // interfaces have no runtime method container
	}
	return ""
}

// checkEntry is the oracle of the exhaustive enumeration for one declared method.
func checkEntry(e *entry) (status string, err error) {
	if r := skipReason(e); r != "" {
		return "skipped:" + r, nil
	}
	c, why := runtimeContainer(e)
	if c == nil {
		return "", fmt.Errorf("%s: declared in the headers (%s) but %s", e, e.kind, why)
	}
	rm := c.LookupMethod(value.ToSymbol(e.Name))
	via := ""
	if rm == nil && e.Name == "#init" && len(e.m.Params) == 0 {
		// opInstantiate: "no initialiser defined, no arguments given: just replace the class with the instance"
		return "resolved:default-init", nil
	}
	if rm == nil && e.kind == "mixin" && !e.Singleton {
		// a mixin method every std class including the mixin defines itself is callable on
		// every std instance of the declaring type (user-defined includers are out of reach here)
		incl := includers(c)
		if len(incl) == 0 {
			return "", fmt.Errorf("%s: declared in the headers but the runtime %s does not resolve the method name and no runtime class includes the mixin", e, c.Inspect())
		}
		for _, ic := range incl {
			m := ic.LookupMethod(value.ToSymbol(e.Name))
			if m == nil {
				return "", fmt.Errorf("%s: declared in the headers on the mixin, but neither the runtime %s nor its includer %s resolves the method name", e, c.Inspect(), ic.Name)
			}
			if m.ParameterCount() < len(e.m.Params) {
				return "", fmt.Errorf("%s: header declares %d parameter(s) %s, the implementation in includer %s takes %d", e, len(e.m.Params), paramSummary(e.m), ic.Name, m.ParameterCount())
			}
		}
		return "resolved:via-includers-only", nil
	}
	_ = via
	if rm == nil {
		return "", fmt.Errorf("%s: declared in the headers but the runtime %s does not resolve the method name (LookupMethod = nil)", e, c.Inspect())
	}
	// compiled calls always push one argument per declared parameter (missing optional
	// arguments as undefined, the rest parameter packed into one tuple, named rest into one
	// record): the runtime parameter count has to be exactly the declared parameter count
	want := len(e.m.Params)
	got := rm.ParameterCount()
	if got < want {
		return "", fmt.Errorf("%s: header declares %d parameter(s) %s, the runtime method %s takes %d (call sites push %d arguments: the receiver slot is misaligned)",
			e, want, paramSummary(e.m), rm.Inspect(), got, want)
	}
	if got > want {
		// the VM fills the missing trailing arguments with undefined (populateMissingParametersOnStack):
		// every declared arity is admitted; the native sees extra undefined slots. Reported, not a violation.
		return "resolved:extra-runtime-parameters", nil
	}
	if o := rm.OptionalParameterCount(); o < 0 || o > rm.ParameterCount() {
		return "", fmt.Errorf("%s: runtime optional parameter count %d outside 0..%d", e, o, rm.ParameterCount())
	}
	if rm.OptionalParameterCount() != e.m.OptionalParamCount {
		return "resolved:optional-count-differs", nil // not read by any call path; reported, not a violation
	}
	return "resolved", nil
}

func paramSummary(m *types.Method) string {
	var b strings.Builder
	b.WriteString("(")
	for i, p := range m.Params {
		if i > 0 {
			b.WriteString(", ")
		}
		switch p.Kind {
		case types.PositionalRestParameterKind:
			b.WriteString("*")
		case types.NamedRestParameterKind:
			b.WriteString("**")
		}
		b.WriteString(p.Name.String())
		if p.Kind == types.DefaultValueParameterKind {
			b.WriteString("?")
		}
		b.WriteString(": ")
		b.WriteString(types.Inspect(p.Type))
	}
	b.WriteString(")")
	return b.String()
}

var includersCache = map[*value.Class][]*value.Class{}

// includers: runtime classes (not mixins, not singletons) whose ancestry contains the mixin.
func includers(mixin *value.Class) []*value.Class {
	if r, ok := includersCache[mixin]; ok {
		return r
	}
	var names []string
	for name := range value.RootModule.Constants {
		names = append(names, name.String())
	}
	sort.Strings(names)
	seen := map[*value.Class]bool{}
	var out []*value.Class
	for _, n := range names {
		v := value.RootModule.Constants.Get(value.ToSymbol(n))
		c, ok := v.SafeAsReference().(*value.Class)
		if !ok || c == mixin || c.IsMixin() || c.IsSingleton() || c.IsMixinProxy() || seen[c] {
			continue
		}
		seen[c] = true
		for p := range c.Parents() {
			if p == mixin {
				out = append(out, c)
				break
			}
		}
	}
	includersCache[mixin] = out
	return out
}
