package c28

// Type-directed value generation (specs are JSON-able vgen.VSpec trees with a few
// extra kinds) and construction of the runtime values.

import (
	"fmt"
	"math"
	"math/big"
	"strconv"
	"strings"

	"github.com/elk-language/elk/bitfield"
	"github.com/elk-language/elk/types"
	"github.com/elk-language/elk/value"
	"github.com/elk-language/elk/vm"
	"pgregory.net/rapid"

	"verif/internal/vgen"
)

type VS = vgen.VSpec

// extra kinds on top of vgen.VSpec:
//   undef                      omitted optional argument
//   map, record                E = k0,v0,k1,v1,…
//   set                        E = elements
//   range                      S = closed|open|lopen|ropen|endless_closed|endless_open|beginless_closed|beginless_open, E = bounds
//   regex                      S = source
//   closure                    S = parameter count, E = results returned cyclically; {K:"raise",E:[err]} raises err
//   error                      S = class path, B = message
//   tspan                      S = nanoseconds
//   dspan                      S = "years,months,days"
//   dtspan                     S = "years,months,days,nanoseconds"
//   date                       S = "y,m,d"
//   time                       S = "h,m,s,ns"
//   datetime                   S = "y,mo,d,h,mi,s,ns,offset minutes"
//   tz                         S = offset minutes
//   const                      S = constant path (class / module object)

var th *vm.Thread

func ints(s string) []int {
	var out []int
	for _, p := range strings.Split(s, ",") {
		n, _ := strconv.Atoi(strings.TrimSpace(p))
		out = append(out, n)
	}
	for len(out) < 9 {
		out = append(out, 0)
	}
	return out
}

// build constructs the runtime value; closures count their calls in *calls.
func build(s VS) value.Value {
	switch s.K {
	case "undef":
		return value.Undefined
	case "list":
		l := value.NewArrayListOfValue(len(s.E))
		for _, e := range s.E {
			l.Append(build(e))
		}
		return value.Ref(l)
	case "tuple":
		l := value.NewArrayTupleOfValue(len(s.E))
		for _, e := range s.E {
			l.Append(build(e))
		}
		return value.Ref(l)
	case "pair":
		return value.Ref(value.NewPairOfValue(build(s.E[0]), build(s.E[1])))
	case "map", "record":
		m := vm.NewHashMapOfValue(len(s.E))
		for i := 0; i+1 < len(s.E); i += 2 {
			if err := vm.HashMapOfValueSet(th, m, build(s.E[i]), build(s.E[i+1])); !err.IsUndefined() {
				panic("harness: cannot build map: " + err.Inspect())
			}
		}
		if s.K == "record" {
			return value.Ref((*vm.HashRecordOfValue)(m))
		}
		return value.Ref(m)
	case "set":
		var els []value.Value
		for _, e := range s.E {
			els = append(els, build(e))
		}
		r, err := vm.NewHashSetOfValueWithElements(th, els...)
		if !err.IsUndefined() {
			panic("harness: cannot build set: " + err.Inspect())
		}
		return value.Ref(r)
	case "range":
		var a, b value.Value
		if len(s.E) > 0 {
			a = build(s.E[0])
		}
		if len(s.E) > 1 {
			b = build(s.E[1])
		}
		switch s.S {
		case "closed":
			return value.Ref(value.NewClosedRange(a, b))
		case "open":
			return value.Ref(value.NewOpenRange(a, b))
		case "lopen":
			return value.Ref(value.NewLeftOpenRange(a, b))
		case "ropen":
			return value.Ref(value.NewRightOpenRange(a, b))
		case "endless_closed":
			return value.Ref(value.NewEndlessClosedRange(a))
		case "endless_open":
			return value.Ref(value.NewEndlessOpenRange(a))
		case "beginless_closed":
			return value.Ref(value.NewBeginlessClosedRange(a))
		case "beginless_open":
			return value.Ref(value.NewBeginlessOpenRange(a))
		}
		panic("harness: range kind " + s.S)
	case "regex":
		re, err := value.CompileRegex(s.S, bitfield.BitField8{})
		if err != nil {
			panic("harness: regex " + s.S + ": " + err.Error())
		}
		return value.Ref(re)
	case "closure":
		n, _ := strconv.Atoi(s.S)
		results := s.E
		calls := 0
		return value.Ref(vm.NewNativeClosure(func(_ *vm.Thread, args []value.Value) (value.Value, value.Value) {
			if len(results) == 0 {
				return value.Nil, value.Undefined
			}
			r := results[calls%len(results)]
			calls++
			if r.K == "raise" {
				return value.Undefined, build(r.E[0])
			}
			return build(r), value.Undefined
		}, n, nil))
	case "error":
		c := runtimeClass(s.S)
		if c == nil {
			c = value.ErrorClass
		}
		return value.Ref(value.NewError(c, string(s.B)))
	case "tspan":
		n, _ := strconv.ParseInt(s.S, 10, 64)
		return value.TimeSpan(n).ToValue()
	case "dspan":
		p := ints(s.S)
		return value.MakeDateSpan(p[0], p[1], p[2]).ToValue()
	case "dtspan":
		p := strings.Split(s.S, ",")
		q := ints(s.S)
		var ns int64
		if len(p) > 3 {
			ns, _ = strconv.ParseInt(p[3], 10, 64)
		}
		return value.Ref(value.NewDateTimeSpan(value.MakeDateSpan(q[0], q[1], q[2]), value.TimeSpan(ns)))
	case "date":
		p := ints(s.S)
		return value.MakeDate(p[0], p[1], p[2]).ToValue()
	case "time":
		p := ints(s.S)
		return value.MakeTime(p[0], p[1], p[2], 0, 0, p[3]).ToValue()
	case "datetime":
		p := ints(s.S)
		zone := value.UTCTimezone
		if p[7] != 0 {
			zone = value.NewTimezoneFromOffset(value.TimeSpan(p[7]) * value.Minute)
		}
		return value.Ref(value.NewDateTime(p[0], p[1], p[2], p[3], p[4], p[5], 0, 0, p[6], zone))
	case "tz":
		n, _ := strconv.Atoi(s.S)
		if n == 0 {
			return value.Ref(value.UTCTimezone)
		}
		return value.Ref(value.NewTimezoneFromOffset(value.TimeSpan(n) * value.Minute))
	case "const":
		v := value.RootModule.Constants.Get(value.ToSymbol(s.S))
		if v.IsUndefined() {
			panic("harness: no constant " + s.S)
		}
		return v
	}
	return vgen.Build(s)
}

// ---------------------------------------------------------------------------

// gctx drives generation; t == nil is the probe mode (no draws, first choices):
// it answers "is this type generable".
type gctx struct {
	t          *rapid.T
	n          int
	smallInt   bool // direct Int-typed arguments are small (sizes, counts, exponents)
	smallFloat bool // direct float-typed arguments are small (exponents)
	intArg     bool // set while generating a top-level argument
}

func (g *gctx) lbl(s string) string { g.n++; return s + strconv.Itoa(g.n) }

func (g *gctx) pick(n int) int {
	if g.t == nil || n <= 1 {
		return 0
	}
	return vgen.Pick(g.t, n, g.lbl("pick"))
}

func (g *gctx) rng(lo, hi int) int {
	if g.t == nil {
		if lo <= 0 && hi >= 0 {
			return 0
		}
		return lo
	}
	return rapid.IntRange(lo, hi).Draw(g.t, g.lbl("n"))
}

func (g *gctx) probe() *gctx { return &gctx{smallInt: g.smallInt, smallFloat: g.smallFloat} }

func (g *gctx) genInt(top bool) VS {
	if g.t == nil {
		return VS{K: "int", S: "1"}
	}
	if top && g.smallInt {
		return VS{K: "int", S: strconv.Itoa(g.rng(-4, 66))}
	}
	if top {
		// arguments: mostly small, both sides of zero and of typical lengths
		if g.pick(4) != 0 {
			return VS{K: "int", S: strconv.Itoa(g.rng(-6, 70))}
		}
	} else if g.pick(2) == 0 {
		return VS{K: "int", S: strconv.Itoa(g.rng(-20, 20))}
	}
	return VS{K: "int", S: vgen.BigInt(g.t, g.lbl("big")).String()}
}

func f64spec(k string, f float64) VS {
	return VS{K: k, S: strconv.FormatUint(math.Float64bits(f), 16)}
}

func (g *gctx) genFloat(k string, top bool) VS {
	f := 1.5
	if g.t != nil {
		if top && g.smallFloat {
			f = float64(g.rng(-16, 16)) / 2 // exponents / repeat counts given as floats
		} else {
			f = vgen.Float64(g.t, g.lbl("f"))
		}
	}
	switch k {
	case "f32":
		return VS{K: "f32", S: strconv.FormatUint(uint64(math.Float32bits(float32(f))), 16)}
	case "bigfloat":
		if math.IsNaN(f) {
			return VS{K: "bigfloat", S: "NaN"}
		}
		if math.IsInf(f, 1) {
			return VS{K: "bigfloat", S: "+Inf"}
		}
		if math.IsInf(f, -1) {
			return VS{K: "bigfloat", S: "-Inf"}
		}
		return VS{K: "bigfloat", S: strconv.FormatFloat(f, 'g', -1, 64)}
	}
	return f64spec(k, f)
}

func (g *gctx) genFixed(k string, top bool) VS {
	if g.t == nil {
		return VS{K: k, S: "1"}
	}
	if top && (g.smallInt || g.pick(2) == 0) {
		lo := -4
		if strings.HasPrefix(k, "u") {
			lo = 0
		}
		return VS{K: k, S: strconv.Itoa(g.rng(lo, 66))}
	}
	return VS{K: k, S: vgen.FixedInt(g.t, k, g.lbl("fx")).String()}
}

func (g *gctx) genStr() VS {
	if g.t == nil {
		return VS{K: "str", B: []byte("a")}
	}
	return VS{K: "str", B: vgen.Str(g.t, g.lbl("s"))}
}

var charPool = []rune{'a', 'b', 'A', 'é', '日', '\n', 0, 0x80, 0xff, 0x1F600, '5', ' ', 'z'}
var symPool = []string{"a", "b", "foo", "A", "", "foo bar", "é", "5"}
var regexPool = []string{"a", "a+", "[a-z]*", "^foo$", "(a|b)c", "\\d+", "", ".", "é?", "\\w+\\s"}
var classPool = []string{"Std::Int", "Std::String", "Std::ArrayList", "Std::Object", "Std::Error", "Std::Comparable", "Std::Kernel"}

func (g *gctx) genChar() VS {
	return VS{K: "char", S: strconv.Itoa(int(charPool[g.pick(len(charPool))]))}
}

func (g *gctx) genScalar() VS {
	switch g.pick(8) {
	case 0:
		return g.genInt(false)
	case 1:
		return g.genFloat("float", false)
	case 2:
		return g.genStr()
	case 3:
		return g.genChar()
	case 4:
		return VS{K: "sym", S: symPool[g.pick(len(symPool))]}
	case 5:
		return VS{K: "bool", S: []string{"true", "false"}[g.pick(2)]}
	case 6:
		return VS{K: "nil"}
	default:
		k := vgen.IntKinds[g.pick(len(vgen.IntKinds))]
		return g.genFixed(k, false)
	}
}

func (g *gctx) genAny(depth int) VS {
	if depth > 0 && g.pick(4) == 0 {
		n := g.rng(0, 3)
		k := []string{"list", "tuple"}[g.pick(2)]
		s := VS{K: k}
		for i := 0; i < n; i++ {
			s.E = append(s.E, g.genAny(depth-1))
		}
		return s
	}
	return g.genScalar()
}

var anyB = bound{t: types.Any{}}

func arg(args []bound, i int) bound {
	if i < len(args) {
		return args[i]
	}
	return anyB
}

func (g *gctx) genSeq(kind string, el bound, depth int) (VS, bool) {
	if _, ok := g.probe().genB(el, depth-1); !ok {
		return VS{K: kind}, true // only the empty collection
	}
	n := g.rng(0, 4)
	s := VS{K: kind}
	for i := 0; i < n; i++ {
		v, _ := g.genB(el, depth-1)
		s.E = append(s.E, v)
	}
	return s, true
}

func (g *gctx) genMap(kind string, k, v bound, depth int) (VS, bool) {
	_, ok1 := g.probe().genB(k, depth-1)
	_, ok2 := g.probe().genB(v, depth-1)
	if !ok1 || !ok2 {
		return VS{K: kind}, true
	}
	n := g.rng(0, 3)
	s := VS{K: kind}
	for i := 0; i < n; i++ {
		kv, _ := g.genB(k, depth-1)
		vv, _ := g.genB(v, depth-1)
		s.E = append(s.E, kv, vv)
	}
	return s, true
}

func (g *gctx) genB(b bound, depth int) (VS, bool) { return g.gen(b.t, b.e, depth) }

// rangeable: element types ranges are generated for
func rangeElem(b bound) string {
	t, e := b.t, b.e
	for i := 0; i < 8; i++ {
		switch tt := t.(type) {
		case *types.TypeParameter:
			if nb, ok := e.lookup(tt); ok {
				t, e = nb.t, nb.e
				continue
			}
			return ""
		case *types.NamedType:
			t = tt.Type
			continue
		case *types.Class:
			switch tt.Name() {
			case "Std::Int", "Std::Float", "Std::Char":
				return tt.Name()
			}
			return ""
		case types.Any:
			return "Std::Int"
		}
		break
	}
	return ""
}

func (g *gctx) genRange(kind string, el bound) (VS, bool) {
	en := rangeElem(el)
	if en == "" {
		return VS{}, false
	}
	one := func() VS {
		switch en {
		case "Std::Float":
			return f64spec("float", float64(g.rng(-20, 20))/2)
		case "Std::Char":
			return VS{K: "char", S: strconv.Itoa('a' + g.rng(0, 25))}
		}
		return VS{K: "int", S: strconv.Itoa(g.rng(-8, 12))}
	}
	s := VS{K: "range", S: kind}
	switch kind {
	case "closed", "open", "lopen", "ropen":
		s.E = []VS{one(), one()}
	default:
		s.E = []VS{one()}
	}
	return s, true
}

var finiteRanges = []string{"closed", "open", "lopen", "ropen"}
var allRanges = []string{"closed", "open", "lopen", "ropen", "endless_closed", "endless_open", "beginless_closed", "beginless_open"}

var rangeKindOf = map[string]string{
	"Std::ClosedRange": "closed", "Std::OpenRange": "open", "Std::LeftOpenRange": "lopen", "Std::RightOpenRange": "ropen",
	"Std::EndlessClosedRange": "endless_closed", "Std::EndlessOpenRange": "endless_open",
	"Std::BeginlessClosedRange": "beginless_closed", "Std::BeginlessOpenRange": "beginless_open",
}

func (g *gctx) genTimeSpan() VS {
	if g.t == nil {
		return VS{K: "tspan", S: "1000"}
	}
	var n int64
	switch g.pick(4) {
	case 0:
		n = int64(g.rng(-5, 5))
	case 1:
		n = int64(g.rng(-100000, 100000)) * 1_000_000
	case 2:
		n = int64(g.rng(-400, 400)) * int64(value.Day) / 4
	default:
		n = rapid.Int64().Draw(g.t, g.lbl("ns"))
	}
	return VS{K: "tspan", S: strconv.FormatInt(n, 10)}
}

func (g *gctx) genDateSpan() VS {
	return VS{K: "dspan", S: fmt.Sprintf("%d,%d,%d", g.rng(-30, 30), g.rng(-30, 30), g.rng(-800, 800))}
}

func (g *gctx) genDate() VS {
	return VS{K: "date", S: fmt.Sprintf("%d,%d,%d", g.rng(1, 3000), g.rng(1, 12), g.rng(1, 28))}
}

func (g *gctx) genTime() VS {
	return VS{K: "time", S: fmt.Sprintf("%d,%d,%d,%d", g.rng(0, 23), g.rng(0, 59), g.rng(0, 59), g.rng(0, 999_999_999))}
}

func (g *gctx) genTz() int {
	if g.pick(2) == 0 {
		return 0
	}
	return g.rng(-14*4, 14*4) * 15
}

// genNamed generates an instance of the class / mixin / interface with the given full name.
func (g *gctx) genNamed(name string, ns types.Namespace, args []bound, depth int) (VS, bool) {
	top := g.intArg
	g.intArg = false
	switch name {
	case "Std::Int":
		return g.genInt(top), true
	case "Std::Float":
		return g.genFloat("float", top), true
	case "Std::Float64":
		return g.genFloat("f64", top), true
	case "Std::Float32":
		return g.genFloat("f32", top), true
	case "Std::BigFloat":
		return g.genFloat("bigfloat", top), true
	case "Std::Int8", "Std::Int16", "Std::Int32", "Std::Int64", "Std::UInt8", "Std::UInt16", "Std::UInt32", "Std::UInt64", "Std::UInt":
		k := strings.ToLower(strings.TrimPrefix(name, "Std::"))
		k = strings.Replace(strings.Replace(k, "uint", "u", 1), "int", "i", 1)
		if name == "Std::UInt" {
			k = "uint"
		}
		return g.genFixed(k, top), true
	case "Std::String":
		return g.genStr(), true
	case "Std::Char":
		return g.genChar(), true
	case "Std::Symbol":
		return VS{K: "sym", S: symPool[g.pick(len(symPool))]}, true
	case "Std::Bool":
		return VS{K: "bool", S: []string{"true", "false"}[g.pick(2)]}, true
	case "Std::True":
		return VS{K: "bool", S: "true"}, true
	case "Std::False":
		return VS{K: "bool", S: "false"}, true
	case "Std::Nil":
		return VS{K: "nil"}, true
	case "Std::Regex":
		return VS{K: "regex", S: regexPool[g.pick(len(regexPool))]}, true
	case "Std::Value", "Std::Object":
		return g.genAny(depth), true
	case "Std::Class":
		return VS{K: "const", S: classPool[g.pick(4)]}, true
	case "Std::ArrayList", "Std::List":
		return g.genSeq("list", arg(args, 0), depth)
	case "Std::ArrayTuple":
		return g.genSeq("tuple", arg(args, 0), depth)
	case "Std::Tuple":
		return g.genSeq([]string{"tuple", "list"}[g.pick(2)], arg(args, 0), depth)
	case "Std::HashSet", "Std::Set", "Std::ImmutableSet":
		return g.genSeq("set", arg(args, 0), depth)
	case "Std::Collection":
		return g.genSeq([]string{"list", "set"}[g.pick(2)], arg(args, 0), depth)
	case "Std::ImmutableCollection", "Std::Iterable", "Std::PrimitiveIterable":
		return g.genSeq([]string{"list", "tuple", "set"}[g.pick(3)], arg(args, 0), depth)
	case "Std::HashMap", "Std::Map":
		return g.genMap("map", arg(args, 0), arg(args, 1), depth)
	case "Std::HashRecord":
		return g.genMap("record", arg(args, 0), arg(args, 1), depth)
	case "Std::Record":
		return g.genMap([]string{"record", "map"}[g.pick(2)], arg(args, 0), arg(args, 1), depth)
	case "Std::Pair":
		k, ok1 := g.genB(arg(args, 0), depth-1)
		v, ok2 := g.genB(arg(args, 1), depth-1)
		if !ok1 || !ok2 {
			return VS{}, false
		}
		return VS{K: "pair", E: []VS{k, v}}, true
	case "Std::Range":
		return g.genRange(finiteRanges[g.pick(len(finiteRanges))], arg(args, 0))
	case "Std::ClosedRange", "Std::OpenRange", "Std::LeftOpenRange", "Std::RightOpenRange",
		"Std::EndlessClosedRange", "Std::EndlessOpenRange", "Std::BeginlessClosedRange", "Std::BeginlessOpenRange":
		return g.genRange(rangeKindOf[name], arg(args, 0))
	case "Std::Time::Span":
		return g.genTimeSpan(), true
	case "Std::Date::Span":
		return g.genDateSpan(), true
	case "Std::DateTime::Span":
		d := g.genDateSpan()
		t := g.genTimeSpan()
		return VS{K: "dtspan", S: d.S + "," + t.S}, true
	case "Std::Duration":
		switch g.pick(3) {
		case 0:
			return g.genNamed("Std::Time::Span", nil, nil, depth)
		case 1:
			return g.genNamed("Std::Date::Span", nil, nil, depth)
		}
		return g.genNamed("Std::DateTime::Span", nil, nil, depth)
	case "Std::Date":
		return g.genDate(), true
	case "Std::Time":
		return g.genTime(), true
	case "Std::DateTime":
		d, t := g.genDate(), g.genTime()
		return VS{K: "datetime", S: fmt.Sprintf("%s,%s,%d", d.S, t.S, g.genTz())}, true
	case "Std::Timezone":
		return VS{K: "tz", S: strconv.Itoa(g.genTz())}, true
	}
	if rc := runtimeClass(name); rc != nil && !rc.IsMixin() {
		for p := range rc.Parents() {
			if p == value.ErrorClass {
				return VS{K: "error", S: name, B: []byte("boom")}, true
			}
		}
	}
	if i, ok := ns.(*types.Interface); ok {
		cands := interfaceCandidates(i)
		if len(cands) == 0 {
			return VS{}, false
		}
		return g.genNamed(cands[g.pick(len(cands))], nil, nil, depth)
	}
	return VS{}, false
}

// scalar classes offered for interface-typed parameters
var ifaceAtoms = []string{"Std::Int", "Std::Float", "Std::String", "Std::Char", "Std::Symbol", "Std::BigFloat", "Std::Int8", "Std::UInt64", "Std::Float64", "Std::Bool", "Std::Nil"}
var ifaceCache = map[string][]string{}

// interfaceCandidates: classes whose declared methods cover the interface's
// abstract methods by name and parameter count (structural, as the checker does).
func interfaceCandidates(i *types.Interface) []string {
	if c, ok := ifaceCache[i.Name()]; ok {
		return c
	}
	var out []string
	for _, cn := range ifaceAtoms {
		cls, ok := nsByPath[cn].(*types.Class)
		if !ok {
			continue
		}
		have := map[string]*types.Method{}
		for n, m := range types.AllMethods(cls) {
			have[n.String()] = m
		}
		okAll := true
		any := false
		for n, m := range types.AllMethods(i) {
			if !m.IsAbstract() {
				continue
			}
			any = true
			hm := have[n.String()]
			if hm == nil || hm.IsAbstract() || len(hm.Params) != len(m.Params) {
				okAll = false
				break
			}
		}
		if okAll && any {
			out = append(out, cn)
		}
	}
	ifaceCache[i.Name()] = out
	return out
}

func nsArgsFromEnv(ns types.Namespace, e *tyEnv) []bound {
	var out []bound
	for _, tp := range ns.TypeParameters() {
		if b, ok := e.lookup(tp); ok {
			out = append(out, b)
		} else {
			out = append(out, anyB)
		}
	}
	return out
}

// gen generates a value of static type t read in e.
func (g *gctx) gen(t types.Type, e *tyEnv, depth int) (VS, bool) {
	if depth < -6 {
		return VS{}, false
	}
	switch tt := t.(type) {
	case types.Any:
		g.intArg = false
		return g.genAny(depth), true
	case types.Nil:
		return VS{K: "nil"}, true
	case types.Bool:
		return VS{K: "bool", S: []string{"true", "false"}[g.pick(2)]}, true
	case types.True:
		return VS{K: "bool", S: "true"}, true
	case types.False:
		return VS{K: "bool", S: "false"}, true
	case types.Self:
		if e != nil && e.self != nil {
			return g.gen(e.self, e.selfEnv, depth)
		}
		return VS{}, false
	case *types.NamedType:
		return g.gen(tt.Type, e, depth)
	case *types.Nilable:
		top := g.intArg
		if _, ok := g.probe().gen(tt.Type, e, depth); !ok || g.pick(4) == 0 {
			return VS{K: "nil"}, true
		}
		g.intArg = top
		return g.gen(tt.Type, e, depth)
	case *types.Union:
		top := g.intArg
		var ok []types.Type
		for _, el := range tt.Elements {
			if _, y := g.probe().gen(el, e, depth); y {
				ok = append(ok, el)
			}
		}
		if len(ok) == 0 {
			return VS{}, false
		}
		g.intArg = top
		return g.gen(ok[g.pick(len(ok))], e, depth)
	case *types.TypeParameter:
		if b, ok := e.lookup(tt); ok {
			return g.gen(b.t, b.e, depth)
		}
		return VS{}, false
	case *types.Class:
		return g.genNamed(tt.Name(), tt, nsArgsFromEnv(tt, e), depth)
	case *types.Mixin:
		return g.genNamed(tt.Name(), tt, nsArgsFromEnv(tt, e), depth)
	case *types.Interface:
		return g.genNamed(tt.Name(), tt, nsArgsFromEnv(tt, e), depth)
	case *types.Generic:
		var args []bound
		for _, a := range typeArgsOf(tt) {
			args = append(args, bound{a, e})
		}
		switch n := tt.Namespace.(type) {
		case *types.Class:
			return g.genNamed(n.Name(), n, args, depth)
		case *types.Mixin:
			return g.genNamed(n.Name(), n, args, depth)
		case *types.Interface:
			return g.genNamed(n.Name(), n, args, depth)
		}
		return VS{}, false
	case *types.Callable:
		g.intArg = false
		return g.genClosure(tt, e, depth)
	case *types.SingletonClass:
		return VS{K: "const", S: tt.AttachedObject.Name()}, true
	case *types.IntLiteral:
		b, ok := new(big.Int).SetString(strings.ReplaceAll(tt.Value, "_", ""), 0)
		if !ok {
			return VS{}, false
		}
		return VS{K: "int", S: b.String()}, true
	case *types.StringLiteral:
		return VS{K: "str", B: []byte(tt.Value)}, true
	case *types.SymbolLiteral:
		return VS{K: "sym", S: tt.Value}, true
	case *types.CharLiteral:
		return VS{K: "char", S: strconv.Itoa(int(tt.Value))}, true
	}
	return VS{}, false
}

func isVoidish(t types.Type) bool {
	switch t.(type) {
	case types.Void, types.NoValue, types.Untyped, nil:
		return true
	}
	return false
}

// resolvesToNever: the (throw) type is never after resolving type parameters
func resolvesToNever(t types.Type, e *tyEnv) bool {
	for i := 0; i < 8; i++ {
		switch tt := t.(type) {
		case types.Never, nil:
			return true
		case *types.TypeParameter:
			b, ok := e.lookup(tt)
			if !ok {
				return true // unknown: be conservative, do not raise
			}
			t, e = b.t, b.e
			continue
		}
		return false
	}
	return false
}

func (g *gctx) genClosure(c *types.Callable, e *tyEnv, depth int) (VS, bool) {
	m := c.Body
	s := VS{K: "closure", S: strconv.Itoa(len(m.Params))}
	if isVoidish(m.ReturnType) {
		s.E = []VS{{K: "nil"}}
	} else {
		if _, ok := g.probe().gen(m.ReturnType, e, depth-1); !ok {
			return VS{}, false
		}
		n := g.rng(1, 3)
		for i := 0; i < n; i++ {
			v, _ := g.gen(m.ReturnType, e, depth-1)
			s.E = append(s.E, v)
		}
	}
	if !resolvesToNever(m.ThrowType, e) && g.pick(3) == 0 {
		if ev, ok := g.gen(m.ThrowType, e, depth-1); ok && ev.K == "error" {
			s.E = append(s.E, VS{K: "raise", E: []VS{ev}})
		}
	}
	return s, true
}
