package c28

import (
	"fmt"
	"io"
	"os"
	"runtime/debug"
	"sort"
	"strings"
	"testing"

	"github.com/elk-language/elk"
	"github.com/elk-language/elk/env"
	"github.com/elk-language/elk/types"
	"github.com/elk-language/elk/types/checker"
	"github.com/elk-language/elk/value"
	"github.com/elk-language/elk/vm"
	"pgregory.net/rapid"

	"verif/internal/pbt"
	"verif/internal/vgen"
)

func TestMain(m *testing.M) {
	if env.ELKPATH == "" {
		env.ELKPATH = "/repo"
	}
	elk.InitGlobalEnvironment()
	th = vm.New(vm.WithStdout(io.Discard), vm.WithStderr(io.Discard))
	// lib/builtin/**/*.elk only defines macros (Std::Kernel#enhance!), which live in the
	// checker's macro environment and have no runtime method: every non-macro method the
	// headers declare is native and registered by InitGlobalEnvironment.
	buildTable(checker.New().Env())
	buildTargets()
	pbt.Main(m, "C28")
}

// ---------------------------------------------------------------------------
// (a) exhaustive enumeration of the header method table

type TableCase struct {
	All       bool   `json:"all,omitempty"` // sweep the whole table
	NS        string `json:"ns,omitempty"`
	Singleton bool   `json:"singleton,omitempty"`
	Method    string `json:"method,omitempty"`
}

func sweep() (counts map[string]int, firstErr error, first *entry) {
	counts = map[string]int{}
	for _, e := range table {
		if slug := knownTableIndex[entryKey(e.NS, e.Singleton, e.Name)]; slug != "" && pbt.KnownActive(slug) {
			counts["excluded-known:"+slug]++
			continue
		}
		st, err := checkEntry(e)
		if err != nil {
			counts["violations"]++
			if firstErr == nil {
				firstErr, first = err, e
			}
			continue
		}
		counts[st]++
	}
	return
}

func tableOracle(c TableCase, ctx *pbt.Ctx) error {
	if c.All {
		counts, err, _ := sweep()
		keys := make([]string, 0, len(counts))
		for k := range counts {
			keys = append(keys, k)
		}
		sort.Strings(keys)
		var parts []string
		for _, k := range keys {
			parts = append(parts, fmt.Sprintf("%s=%d", k, counts[k]))
		}
		for k, n := range counts {
			if strings.HasPrefix(k, "excluded-known:") && n > 0 {
				ctx.Excluded(strings.TrimPrefix(k, "excluded-known:"))
			}
		}
		ctx.Label("coverage.exhaustive: full table sweep")
		ctx.Label(fmt.Sprintf("sweep: declared=%d %s", len(table), strings.Join(parts, " ")))
		ctx.NonTrivial("sweep")
		if err != nil {
			return fmt.Errorf("%v (%d table entries fail in total)", err, counts["violations"])
		}
		return nil
	}
	e := tableIndex[entryKey(c.NS, c.Singleton, c.Method)]
	if e == nil {
		ctx.Label("entry:stale")
		return nil
	}
	st, err := checkEntry(e)
	if err != nil {
		return err
	}
	ctx.Label("entry:" + st)
	ctx.Label("kind:" + e.kind)
	if strings.HasPrefix(st, "resolved") {
		ctx.NonTrivial(entryKey(c.NS, c.Singleton, c.Method))
	}
	return nil
}

func TestHeaderTable(t *testing.T) {
	pbt.Rule("header-table", "finite table: every method declared by the type environment built from the headers (own methods of every class, mixin, module, interface and singleton under the root); "+
		"one case in eight sweeps the complete table (coverage.exhaustive), the others check one uniformly drawn entry; non-trivial = entry has a runtime method (not abstract/macro/interface), distinct by entry")
	pbt.Run(t, pbt.Prop[TableCase]{
		Name: "header-table", Quick: 4000, Thorough: 40000,
		Gen: func(t *rapid.T) TableCase {
			if rapid.IntRange(0, 7).Draw(t, "all") == 0 {
				return TableCase{All: true}
			}
			e := table[vgen.Pick(t, len(table), "entry")]
			return TableCase{NS: e.NS, Singleton: e.Singleton, Method: e.Name}
		},
		Oracle: tableOracle,
		Minimize: func(c TableCase) TableCase {
			if !c.All {
				return c
			}
			if _, _, e := sweep(); e != nil {
				return TableCase{NS: e.NS, Singleton: e.Singleton, Method: e.Name}
			}
			return c
		},
		Known: tableKnown(),
	})
}

func tableKnown() []pbt.Known[TableCase] {
	var out []pbt.Known[TableCase]
	for slug := range knownTable {
		slug := slug
		out = append(out, pbt.Known[TableCase]{Key: slug, Match: func(c TableCase) bool {
			return !c.All && knownTableIndex[entryKey(c.NS, c.Singleton, c.Method)] == slug
		}})
	}
	sort.Slice(out, func(i, j int) bool { return out[i].Key < out[j].Key })
	return out
}

// ---------------------------------------------------------------------------
// (b) generated calls

// target: a method callable on receiver class Recv (own or inherited).
type target struct {
	Recv      string // receiver class / module path
	Singleton bool   // the receiver is the class / module object itself
	Name      string
	decl      types.Namespace
	m         *types.Method
}

func (t *target) key() string { return entryKey(t.Recv, t.Singleton, t.Name) }

var (
	targets     []*target
	targetIndex = map[string]*target{}
	// coverage report
	notGenerable = map[string]string{} // target key -> first parameter that cannot be generated
	skippedNames = map[string]string{} // target key -> reason (dangerous in-process)
	recvCount    = map[string]int{}
)

// receivers: classes whose instances the generator can build
var instanceReceivers = []string{
	"Std::Int", "Std::Float", "Std::BigFloat", "Std::Float32", "Std::Float64",
	"Std::Int8", "Std::Int16", "Std::Int32", "Std::Int64", "Std::UInt8", "Std::UInt16", "Std::UInt32", "Std::UInt64", "Std::UInt",
	"Std::String", "Std::Char", "Std::Symbol", "Std::Bool", "Std::True", "Std::False", "Std::Nil", "Std::Regex",
	"Std::ArrayList", "Std::ArrayTuple", "Std::HashMap", "Std::HashRecord", "Std::HashSet", "Std::Pair",
	"Std::ClosedRange", "Std::OpenRange", "Std::LeftOpenRange", "Std::RightOpenRange",
	"Std::EndlessClosedRange", "Std::EndlessOpenRange", "Std::BeginlessClosedRange", "Std::BeginlessOpenRange",
	"Std::Time::Span", "Std::Date::Span", "Std::DateTime::Span", "Std::Date", "Std::Time", "Std::DateTime", "Std::Timezone",
}

// atoms a class-level / method-level type parameter may be bound to
var atoms = []string{"Int", "String", "Float", "Char", "Symbol", "Bool"}
var rangeAtoms = []string{"Int", "Float", "Char"}

func atomType(name string) types.Type {
	switch name {
	case "Never":
		return types.Never{}
	case "Bool":
		return types.Bool{}
	}
	if ns, ok := nsByPath["Std::"+name]; ok {
		return ns
	}
	return types.Any{}
}

// dangerous in-process: blocks, sleeps, exits, reads stdin, spawns threads, touches files,
// or prints to the process's stdout
var skipMethods = map[string]string{
	"Std::Kernel#exit":               "exits the process",
	"Std::Kernel#sleep":              "sleeps",
	"Std::Kernel#timeout":            "spawns a goroutine / needs a thread pool",
	"Std::Debug#start_cpu_profile":   "writes files",
	"Std::Debug#stop_cpu_profile":    "profiling state",
	"Std::Debug#inspect_call_stack":  "prints to the process stdout",
	"Std::Debug#inspect_value_stack": "prints to the process stdout",
	"Std::Debug#stack_trace":         "depends on interpreter frames (none in a direct native call)",
	"Std::Runtime#gc":                "forces a full GC per call (cost)",
	"Std::Promise.wait":              "blocks",
	"Std::Sync::Once.fn":             "synchronisation primitive",
	"Std::Sync::Once.memo":           "synchronisation primitive",
	"Std::Aborter.timeout":           "starts timers",
	"Std::Aborter.deadline":          "starts timers",
	"Std::Elk::Parser.parse":         "covered by the front-end checks (C03/C05)",
	"Std::Elk::Lexer.lex":            "covered by the front-end checks (C03/C04)",
	"Std::Elk::Lexer.colorize":       "covered by the front-end checks (C03/C04)",
	"Std::Macro#eval_node":           "runs the compiler",
	"Std::Time::Span.since":          "wall clock",
	"Std::Time::Span.until":          "wall clock",
}

// methods whose Int-typed arguments drive allocation or iteration counts: magnitudes bounded
var boundedNames = map[string]bool{
	"*": true, "**": true, "<<": true, ">>": true, "<<<": true, ">>>": true, "grow": true, "times": true,
	"repeat": true, "ljust": true, "rjust": true, "center": true, "step": true, "take": true, "drop": true,
	"set_precision": true, "p": true, "to_string": true, "round": true, "floor": true, "ceil": true, "trunc": true,
}

// methods that iterate receiver-many times: receiver magnitude bounded
var smallReceiver = map[string]bool{"Std::Int#times": true}

// endless / beginless ranges: only their own methods (inherited iteration never terminates)
var ownOnly = map[string]bool{
	"Std::EndlessClosedRange": true, "Std::EndlessOpenRange": true, "Std::BeginlessClosedRange": true, "Std::BeginlessOpenRange": true,
}

func rootEnvFor(recv string, bind map[string]string) (types.Namespace, *tyEnv) {
	ns := nsByPath[recv]
	e := newEnv()
	if ns == nil {
		return nil, e
	}
	for _, tp := range ns.TypeParameters() {
		k := tpKey(tp)
		a := bind[k]
		if a == "" {
			a = "Int"
		}
		e.m[k] = bound{atomType(a), nil}
	}
	e.self, e.selfEnv = ns, e
	return ns, e
}

// inherited enumerates callable (non abstract, non macro) methods of receiver class ns: first definition by name wins.
func inherited(ns types.Namespace, root *tyEnv, own bool, out func(decl types.Namespace, m *types.Method, e *tyEnv)) {
	seen := map[string]bool{}
	ancestors(ns, root, func(decl types.Namespace, e *tyEnv) {
		if own && decl != ns {
			return
		}
		for _, n := range sortedMethodNames(decl) {
			if seen[n] {
				continue
			}
			seen[n] = true
			m := decl.Methods()[value.ToSymbol(n)]
			if m.IsAbstract() || m.IsMacro() {
				continue
			}
			out(decl, m, e)
		}
	})
}

// methodEnv layers the bindings of the method's own type parameters over the declaring namespace's environment.
func methodEnv(m *types.Method, declEnv *tyEnv, bind map[string]string) *tyEnv {
	if len(m.TypeParameters) == 0 {
		return declEnv
	}
	e := newEnv()
	for k, v := range declEnv.m {
		e.m[k] = v
	}
	e.self, e.selfEnv = declEnv.self, declEnv.selfEnv
	throwish := throwParams(m)
	for _, tp := range m.TypeParameters {
		k := tpKey(tp)
		switch {
		case !types.IsAny(tp.UpperBound) && tp.UpperBound != nil:
			e.m[k] = bound{tp.UpperBound, declEnv}
		case !types.IsNever(tp.LowerBound) && tp.LowerBound != nil:
			e.m[k] = bound{tp.LowerBound, declEnv}
		default:
			a := bind[k]
			if a == "" {
				if throwish[k] {
					a = "Never"
				} else {
					a = "Int"
				}
			}
			e.m[k] = bound{atomType(a), nil}
		}
	}
	return e
}

// throwParams: method type parameters that occur in throw position (of the method or of a closure parameter)
func throwParams(m *types.Method) map[string]bool {
	out := map[string]bool{}
	var mark func(t types.Type)
	mark = func(t types.Type) {
		switch tt := t.(type) {
		case *types.TypeParameter:
			out[tpKey(tt)] = true
		case *types.Union:
			for _, el := range tt.Elements {
				mark(el)
			}
		}
	}
	mark(m.ThrowType)
	for _, p := range m.Params {
		if c, ok := p.Type.(*types.Callable); ok {
			mark(c.Body.ThrowType)
		}
	}
	return out
}

// freeMethodParams: method-level type parameters the generator draws an atom for
func freeMethodParams(m *types.Method) (free []string, throwish map[string]bool) {
	throwish = throwParams(m)
	for _, tp := range m.TypeParameters {
		if (tp.UpperBound != nil && !types.IsAny(tp.UpperBound)) || (tp.LowerBound != nil && !types.IsNever(tp.LowerBound)) {
			continue
		}
		free = append(free, tpKey(tp))
	}
	return
}

func buildTargets() {
	add := func(recv string, singleton bool, ns types.Namespace, own bool) {
		_, root := rootEnvFor(recv, nil)
		if singleton {
			root.self, root.selfEnv = ns, root
		}
		inherited(ns, root, own, func(decl types.Namespace, m *types.Method, e *tyEnv) {
			t := &target{Recv: recv, Singleton: singleton, Name: m.Name.String(), decl: decl, m: m}
			k := t.key()
			declKey := entryKey(decl.Name(), singleton, t.Name)
			if _, isSingleton := decl.(*types.SingletonClass); isSingleton {
				declKey = entryKey(recv, true, t.Name)
			}
			if _, isModule := decl.(*types.Module); isModule {
				declKey = entryKey(recv, false, t.Name)
			}
			if why, bad := skipMethods[declKey]; bad {
				skippedNames[k] = why
				return
			}
			me := methodEnv(m, e, nil)
			pg := &gctx{}
			for _, p := range m.Params {
				if _, ok := pg.gen(p.Type, me, 2); !ok {
					notGenerable[k] = fmt.Sprintf("%s: %s", p.Name.String(), types.Inspect(p.Type))
					return
				}
			}
			targets = append(targets, t)
			targetIndex[k] = t
			recvCount[recv]++
		})
	}
	for _, r := range instanceReceivers {
		ns := nsByPath[r]
		if ns == nil {
			continue
		}
		add(r, false, ns, ownOnly[r])
	}
	// class objects (singleton methods) and module objects
	var paths []string
	for p := range nsByPath {
		paths = append(paths, p)
	}
	sort.Strings(paths)
	for _, p := range paths {
		ns := nsByPath[p]
		if strings.HasPrefix(p, "Std::Elk::AST") {
			continue
		}
		switch n := ns.(type) {
		case *types.Module:
			if len(n.Methods()) > 0 && p != "" {
				add(p, true, n, true)
			}
		case *types.Class, *types.Mixin:
			if s := ns.Singleton(); s != nil && len(s.Methods()) > 0 {
				add(p, true, s, true)
			}
		}
	}
}

type CallCase struct {
	Recv      string            `json:"recv"`
	Singleton bool              `json:"singleton,omitempty"`
	Method    string            `json:"method"`
	Bind      map[string]string `json:"bind,omitempty"`  // type parameter -> atom
	Short     bool              `json:"short,omitempty"` // leave trailing omitted optional arguments out of the Go call
	Self      vgen.VSpec        `json:"self"`
	Args      []vgen.VSpec      `json:"args"`
}

func isNumericRecv(r string) bool {
	switch r {
	case "Std::Int", "Std::Float", "Std::BigFloat", "Std::Float32", "Std::Float64",
		"Std::Int8", "Std::Int16", "Std::Int32", "Std::Int64", "Std::UInt8", "Std::UInt16", "Std::UInt32", "Std::UInt64", "Std::UInt":
		return true
	}
	return false
}

// resolve finds the method and the environments for a case.
func resolve(recv string, singleton bool, name string, bind map[string]string) (t *target, recvNS types.Namespace, root, menv *tyEnv) {
	t = targetIndex[entryKey(recv, singleton, name)]
	if t == nil {
		return nil, nil, nil, nil
	}
	recvNS, root = rootEnvFor(recv, bind)
	walk := recvNS
	if singleton {
		if _, isMod := recvNS.(*types.Module); !isMod {
			walk = recvNS.Singleton()
		}
		root.self, root.selfEnv = walk, root
	}
	inherited(walk, root, singleton || ownOnly[recv], func(decl types.Namespace, m *types.Method, e *tyEnv) {
		if m == t.m && menv == nil {
			menv = methodEnv(m, e, bind)
		}
	})
	return
}

func genCall(rt *rapid.T) CallCase {
	t := targets[vgen.Pick(rt, len(targets), "target")] // uniform (rapid's IntRange is biased to small values)
	c := CallCase{Recv: t.Recv, Singleton: t.Singleton, Method: t.Name, Bind: map[string]string{}}
	g := &gctx{t: rt}
	recvNS := nsByPath[t.Recv]
	// class-level type parameters of the receiver
	if !t.Singleton {
		for _, tp := range recvNS.TypeParameters() {
			pool := atoms
			if _, isRange := rangeKindOf[t.Recv]; isRange {
				pool = rangeAtoms
			}
			c.Bind[tpKey(tp)] = pool[g.pick(len(pool))]
		}
	}
	free, throwish := freeMethodParams(t.m)
	for _, k := range free {
		if throwish[k] {
			c.Bind[k] = []string{"Never", "Never", "Never", "Error"}[g.pick(4)]
		} else {
			c.Bind[k] = atoms[g.pick(len(atoms))]
		}
	}
	_, _, root, menv := resolve(c.Recv, c.Singleton, c.Method, c.Bind)
	if menv == nil {
		panic("harness: target does not resolve: " + t.key())
	}
	if t.Singleton {
		c.Self = VS{K: "const", S: t.Recv}
	} else {
		s, ok := g.gen(recvNS, root, 2)
		if !ok {
			panic("harness: receiver not generable: " + t.Recv)
		}
		if smallReceiver[t.key()] {
			s = VS{K: "int", S: fmt.Sprint(g.rng(-3, 40))}
		}
		c.Self = s
	}
	g.smallInt = boundedNames[baseName(t.Name)] || !isNumericRecv(t.Recv)
	g.smallFloat = boundedNames[baseName(t.Name)]
	for _, p := range t.m.Params {
		switch p.Kind {
		case types.DefaultValueParameterKind:
			if g.pick(2) == 0 {
				c.Args = append(c.Args, VS{K: "undef"})
				continue
			}
			g.intArg = true
			v, _ := g.gen(p.Type, menv, 2)
			c.Args = append(c.Args, v)
		case types.PositionalRestParameterKind:
			n := g.rng(0, 3)
			s := VS{K: "tuple"}
			for i := 0; i < n; i++ {
				g.intArg = true
				v, _ := g.gen(p.Type, menv, 2)
				s.E = append(s.E, v)
			}
			c.Args = append(c.Args, s)
		case types.NamedRestParameterKind:
			n := g.rng(0, 2)
			s := VS{K: "record"}
			for i := 0; i < n; i++ {
				v, _ := g.gen(p.Type, menv, 2)
				s.E = append(s.E, VS{K: "sym", S: symPool[g.pick(3)]}, v)
			}
			c.Args = append(c.Args, s)
		default:
			g.intArg = true
			v, _ := g.gen(p.Type, menv, 2)
			c.Args = append(c.Args, v)
		}
	}
	c.Short = len(c.Args) > 0 && c.Args[len(c.Args)-1].K == "undef" && g.pick(2) == 0
	return c
}

// baseName strips the overload suffix ("**@1" -> "**").
func baseName(n string) string {
	if i := strings.LastIndexByte(n, '@'); i > 0 && i < len(n)-1 {
		digits := true
		for _, r := range n[i+1:] {
			if r < '0' || r > '9' {
				digits = false
			}
		}
		if digits {
			return n[:i]
		}
	}
	return n
}

func arityPattern(c CallCase) string {
	var b strings.Builder
	for _, a := range c.Args {
		switch a.K {
		case "undef":
			b.WriteByte('-')
		case "tuple", "record":
			fmt.Fprintf(&b, "%s%d", a.K[:1], len(a.E))
		default:
			b.WriteByte('x')
		}
	}
	if c.Short {
		b.WriteByte('s')
	}
	return b.String()
}

// errors that say "the native does not accept what the header admits"
var typeConfusion = map[string]bool{"Std::TypeError": true, "Std::NoMethodError": true}

func callOracle(c CallCase, ctx *pbt.Ctx) (err error) {
	t, recvNS, root, menv := resolve(c.Recv, c.Singleton, c.Method, c.Bind)
	if t == nil || menv == nil {
		ctx.Label("stale:target")
		return nil
	}
	m := t.m
	if len(c.Args) != len(m.Params) {
		ctx.Label("stale:arity")
		return nil
	}
	self := build(c.Self)
	args := make([]value.Value, 0, len(c.Args)+1)
	args = append(args, self)
	cc := &confCtx{th: th}
	if !c.Singleton && !conforms(cc, self, recvNS, root) {
		ctx.Label("stale:receiver")
		return nil
	}
	given := 0
	for i, a := range c.Args {
		v := build(a)
		p := m.Params[i]
		switch {
		case a.K == "undef":
			if p.Kind != types.DefaultValueParameterKind {
				ctx.Label("stale:undef")
				return nil
			}
		case p.Kind == types.PositionalRestParameterKind, p.Kind == types.NamedRestParameterKind:
			given += len(a.E)
		default:
			given++
			// self-check: the generated argument is of the declared parameter type
			if cc2 := (&confCtx{th: th}); !conforms(cc2, v, p.Type, menv) {
				ctx.Label("stale:arg-type")
				ctx.Note("argument does not conform: " + cc2.why)
				return nil
			}
		}
		args = append(args, v)
	}
	cls := self.DirectClass()
	rm := cls.LookupMethod(value.ToSymbol(c.Method))
	if rm == nil || rm.ParameterCount() < len(m.Params) {
		ctx.Label("unresolved (reported by header-table)")
		return nil
	}
	// trailing omitted optional arguments are physically left out (Thread.CallMethod fills them in);
	// everything else is passed the way compiled call sites do: one slot per parameter
	for len(args) > 1 && c.Short && args[len(args)-1].IsUndefined() {
		args = args[:len(args)-1]
	}
	if !c.Short {
		for len(args)-1 < rm.ParameterCount() {
			args = append(args, value.Undefined)
		}
	}
	ctx.Label("recv:" + c.Recv)
	ctx.Label("declared-in:" + t.decl.Name())

	var res, thrown value.Value
	func() {
		defer func() {
			if r := recover(); r != nil {
				err = fmt.Errorf("%s: Go panic in the native implementation: %v\n%s", describe(c, t), r, trimStack(string(debug.Stack())))
			}
		}()
		res, thrown = th.CallMethod(rm, args...)
	}()
	if err != nil {
		return err
	}
	if given > 0 {
		ctx.NonTrivial(t.key() + "/" + arityPattern(c))
	}
	if !thrown.IsUndefined() {
		tc := &confCtx{th: th}
		if !resolvesToNever(m.ThrowType, menv) && conforms(tc, thrown, m.ThrowType, menv) {
			ctx.Label("outcome:throws-declared")
			return nil
		}
		if !value.IsA(thrown, value.ErrorClass) {
			return fmt.Errorf("%s: threw %s, which is neither of the declared throw type `%s` nor a Std::Error (unchecked runtime error)",
				describe(c, t), insp(thrown), types.Inspect(m.ThrowType))
		}
		cn := thrown.Class().Name
		if typeConfusion[cn] {
			return fmt.Errorf("%s: well-typed arguments rejected with %s: the native implementation does not accept what the header declares",
				describe(c, t), insp(thrown))
		}
		ctx.Label("outcome:throws-unchecked:" + cn)
		return nil
	}
	if res.IsUndefined() {
		return fmt.Errorf("%s: returned neither a value nor an error (undefined)", describe(c, t))
	}
	rc := &confCtx{th: th}
	if !conforms(rc, res, m.ReturnType, menv) {
		return fmt.Errorf("%s: returned %s which is not of the declared return type `%s`: %s",
			describe(c, t), insp(res), types.Inspect(m.ReturnType), rc.why)
	}
	ctx.Label("outcome:returns")
	ctx.Label("ret:" + retShape(m.ReturnType))
	return nil
}

func retShape(t types.Type) string {
	s := fmt.Sprintf("%T", t)
	return strings.TrimPrefix(strings.TrimPrefix(s, "*"), "types.")
}

func describe(c CallCase, t *target) string {
	sep := "#"
	if c.Singleton {
		sep = "."
	}
	var as []string
	for _, a := range c.Args {
		as = append(as, specString(a))
	}
	decl := ""
	if t.decl.Name() != c.Recv {
		decl = " [declared in " + t.decl.Name() + "]"
	}
	return fmt.Sprintf("%s%s%s%s on %s with (%s), signature %s: %s ! %s", c.Recv, sep, c.Method, decl, specString(c.Self), strings.Join(as, ", "),
		paramSummary(t.m), types.Inspect(t.m.ReturnType), types.Inspect(t.m.ThrowType))
}

func specString(s VS) string {
	switch s.K {
	case "undef":
		return "<omitted>"
	case "map", "record", "set", "range", "closure", "raise":
		var el []string
		for _, e := range s.E {
			el = append(el, specString(e))
		}
		return fmt.Sprintf("%s:%s[%s]", s.K, s.S, strings.Join(el, ", "))
	case "list", "tuple", "pair":
		var el []string
		for _, e := range s.E {
			el = append(el, specString(e))
		}
		return fmt.Sprintf("%s[%s]", s.K, strings.Join(el, ", "))
	case "error":
		return "error:" + s.S
	case "regex", "tspan", "dspan", "dtspan", "date", "time", "datetime", "tz", "const":
		return s.K + "(" + s.S + ")"
	}
	return s.String()
}

func trimStack(s string) string {
	// keep the frames below the panic
	if i := strings.Index(s, "panic("); i >= 0 {
		s = s[i:]
	}
	lines := strings.Split(s, "\n")
	if len(lines) > 24 {
		lines = lines[:24]
	}
	return strings.Join(lines, "\n")
}

func TestCalls(t *testing.T) {
	pbt.Rule("native-calls", "a uniformly drawn (receiver class, own or inherited non-abstract method) whose receiver and parameter types are generable; type parameters bound to drawn atoms; "+
		"every admitted arity (optional parameters independently omitted, rest parameters with 0..3 elements); non-trivial = at least one argument value given; distinct by (receiver class, method, arity pattern)")
	pbt.Run(t, pbt.Prop[CallCase]{
		Name: "native-calls", Quick: 60000, Thorough: 2000000,
		Gen:         genCall,
		Oracle:      callOracle,
		HangSeconds: 60,
		Sample: func(c CallCase) any {
			if t := targetIndex[entryKey(c.Recv, c.Singleton, c.Method)]; t != nil {
				return describe(c, t)
			}
			return c
		},
		Known: knownCalls,
	})
}

// hasSpecialBigFloat: a BigFloat NaN / ±Inf occurs in the receiver or an argument
func hasSpecialBigFloat(s VS) bool {
	if s.K == "bigfloat" && (s.S == "NaN" || s.S == "+Inf" || s.S == "-Inf") {
		return true
	}
	for _, e := range s.E {
		if hasSpecialBigFloat(e) {
			return true
		}
	}
	return false
}

func isZeroBigFloat(s VS) bool { return s.K == "bigfloat" && (s.S == "0" || s.S == "-0") }

var knownCalls = []pbt.Known[CallCase]{
	// runtime `map` of HashMap / HashRecord is what the headers call `map_pairs` (closure must return a Pair,
	// result is a map); the declared `map` (closure returns V, result ArrayList[V]) is not implemented
	{Key: "hashmap-map-is-map-pairs", Match: func(c CallCase) bool {
		return (c.Recv == "Std::HashMap" || c.Recv == "Std::HashRecord") && c.Method == "map"
	}},
	// Iterable::FiniteBase#reduce on an empty collection returns Go-level undefined (no value, no error)
	{Key: "reduce-empty-undefined", Match: func(c CallCase) bool {
		return c.Method == "reduce" && len(c.Self.E) == 0
	}},
	// ArrayTuple#+ with an ArrayList argument returns an ArrayList, declared ArrayTuple[Val | V]
	{Key: "arraytuple-plus-list-returns-list", Match: func(c CallCase) bool {
		return c.Recv == "Std::ArrayTuple" && c.Method == "+" && len(c.Args) == 1 && c.Args[0].K == "list"
	}},
	// math/big panics (ErrNaN) and nil results for BigFloat NaN / ±Inf operands and for division by a zero BigFloat
	{Key: "bigfloat-special-values-panic", Match: func(c CallCase) bool {
		if hasSpecialBigFloat(c.Self) {
			return true
		}
		for _, a := range c.Args {
			if hasSpecialBigFloat(a) || (isZeroBigFloat(a) && (strings.HasPrefix(c.Method, "/") || strings.HasPrefix(c.Method, "%"))) {
				return true
			}
		}
		return false
	}},
	// consequence of unimplemented-natives (Pair#at): Tuple's natives call `at` on the receiver
	{Key: "unimplemented-natives", Match: func(c CallCase) bool {
		if c.Recv != "Std::Pair" || c.Singleton {
			return false
		}
		// Pair dispatches to the Tuple mixin's generic native, which calls the missing Pair#at
		sym := value.ToSymbol(c.Method)
		tm := value.TupleMixin.Methods[sym]
		return tm != nil && value.PairClass.LookupMethod(sym) == tm
	}},
	// ArrayList#[](range) is declared to return an ArrayList view; only Tuple's generic `[]@1` exists, which builds an ArrayTuple
	{Key: "arraylist-range-subscript-returns-tuple", Match: func(c CallCase) bool {
		return c.Recv == "Std::ArrayList" && c.Method == "[]@1"
	}},
	// `HashSet[Val & V]` was compiled into the header table as HashSet[never]
	{Key: "set-intersection-declared-never", Match: func(c CallCase) bool {
		return c.Recv == "Std::HashSet" && c.Method == "&"
	}},
	// <=> of fixed-precision floats with a NaN operand returns nil, declared Int
	{Key: "float-compare-nan-nil", Match: func(c CallCase) bool {
		if c.Method != "<=>" {
			return false
		}
		if vgen.ContainsNaN(c.Self) {
			return true
		}
		for _, a := range c.Args {
			if vgen.ContainsNaN(a) {
				return true
			}
		}
		return false
	}},
	// Float / Float32 / Float64 #to_int of NaN / ±Inf: nil dereference in Go
	{Key: "float-nonfinite-to-int-panic", Match: func(c CallCase) bool {
		return c.Method == "to_int" && nonFinite(c.Self)
	}},
}

func nonFinite(s VS) bool {
	switch s.K {
	case "float", "f64", "f32":
		if vgen.ContainsNaN(s) {
			return true
		}
		_, inf, ok := vgen.Exact(s)
		return ok && inf != 0
	}
	return false
}

// TestCoverageReport writes the static coverage of the call generator next to the evidence.
func TestCoverageReport(t *testing.T) {
	if pbt.Mode() != "search" {
		return
	}
	idx, _ := pbt.Shard()
	if idx != 0 {
		return
	}
	out := os.Getenv("C28_COVERAGE_OUT")
	if out == "" {
		out = "/tmp/c28-coverage.txt"
	}
	var b strings.Builder
	counts, _, _ := sweep()
	fmt.Fprintf(&b, "declared methods enumerated: %d\n", len(table))
	for _, k := range sortedKeys(counts) {
		fmt.Fprintf(&b, "  %-40s %d\n", k, counts[k])
	}
	for _, e := range table {
		if _, err := checkEntry(e); err != nil {
			fmt.Fprintf(&b, "  VIOLATION %v\n", err)
		}
	}
	fmt.Fprintf(&b, "\ncall targets (receiver class, method): %d\n", len(targets))
	for _, k := range sortedKeys(recvCount) {
		fmt.Fprintf(&b, "  %-40s %d\n", k, recvCount[k])
	}
	fmt.Fprintf(&b, "\nskipped by name (dangerous in-process): %d\n", len(skippedNames))
	for _, k := range sortedKeysS(skippedNames) {
		fmt.Fprintf(&b, "  %-50s %s\n", k, skippedNames[k])
	}
	fmt.Fprintf(&b, "\nskipped because a parameter type is not generable: %d\n", len(notGenerable))
	for _, k := range sortedKeysS(notGenerable) {
		fmt.Fprintf(&b, "  %-50s %s\n", k, notGenerable[k])
	}
	// declared non-abstract methods never reached by a call target
	reached := map[string]bool{}
	for _, tg := range targets {
		dk := entryKey(tg.decl.Name(), tg.Singleton, tg.Name)
		if tg.Singleton {
			dk = entryKey(tg.Recv, true, tg.Name)
		}
		if _, isMod := tg.decl.(*types.Module); isMod {
			dk = entryKey(tg.Recv, false, tg.Name)
		}
		reached[dk] = true
	}
	byNS := map[string]int{}
	total := 0
	for _, e := range table {
		if skipReason(e) != "" {
			continue
		}
		if !reached[entryKey(e.NS, e.Singleton, e.Name)] {
			byNS[e.NS]++
			total++
		}
	}
	fmt.Fprintf(&b, "\ndeclared callable methods with no generable receiver / parameters (enumeration only): %d\n", total)
	for _, k := range sortedKeys(byNS) {
		fmt.Fprintf(&b, "  %-50s %d\n", k, byNS[k])
	}
	_ = os.WriteFile(out, []byte(b.String()), 0o644)
}

func sortedKeys(m map[string]int) []string {
	var ks []string
	for k := range m {
		ks = append(ks, k)
	}
	sort.Strings(ks)
	return ks
}

func sortedKeysS(m map[string]string) []string {
	var ks []string
	for k := range m {
		ks = append(ks, k)
	}
	sort.Strings(ks)
	return ks
}
