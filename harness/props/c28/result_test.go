package c28

import (
	"fmt"
	"testing"

	"github.com/elk-language/elk/value"
	"pgregory.net/rapid"

	"verif/internal/pbt"
	"verif/internal/vgen"
)

// RSpec describes a Std::Result built through the native constructors: ok(payload) / err(payload), where
// the payload is a scalar or another Result (results are inline values with a single payload-flag slot:
// nesting is where the representation can go wrong).
type RSpec struct {
	Ok     bool        `json:"ok"`
	Scalar *vgen.VSpec `json:"scalar,omitempty"`
	Nested *RSpec      `json:"nested,omitempty"`
}

func genRSpec(t *rapid.T, depth int) RSpec {
	r := RSpec{Ok: rapid.Bool().Draw(t, "ok")}
	if depth > 0 && vgen.Pick(t, 2, "nest") == 0 {
		n := genRSpec(t, depth-1)
		r.Nested = &n
		return r
	}
	var s vgen.VSpec
	switch vgen.Pick(t, 5, "pk") {
	case 0:
		s = vgen.VSpec{K: "nil"}
	case 1:
		s = vgen.VSpec{K: "str", B: vgen.Str(t, "ps")}
	case 2:
		s = vgen.VSpec{K: "bool", S: "false"}
	default:
		s = vgen.Number(t, "pn")
	}
	r.Scalar = &s
	return r
}

func callByName(recv value.Value, name string, args ...value.Value) (value.Value, value.Value) {
	return th.CallMethodByName(value.ToSymbol(name), append([]value.Value{recv}, args...)...)
}

// buildResult constructs the value with the Elk-visible natives Result.ok / Result.err.
func buildResult(r RSpec) (value.Value, error) {
	var payload value.Value
	if r.Nested != nil {
		p, err := buildResult(*r.Nested)
		if err != nil {
			return value.Undefined, err
		}
		payload = p
	} else {
		payload = vgen.Build(*r.Scalar)
	}
	ctor := "err"
	if r.Ok {
		ctor = "ok"
	}
	v, e := callByName(value.Ref(value.ResultClass), ctor, payload)
	if !e.IsUndefined() {
		return value.Undefined, fmt.Errorf("Result.%s raised %s", ctor, e.Inspect())
	}
	return v, nil
}

func describeResult(r RSpec) string {
	p := ""
	if r.Nested != nil {
		p = describeResult(*r.Nested)
	} else {
		p = vgen.Build(*r.Scalar).Inspect()
	}
	if r.Ok {
		return "ok(" + p + ")"
	}
	return "err(" + p + ")"
}

// checkResult compares the accessors of v (declared `ok: bool`, `value: Val?`, `err: Err?`) with the model, recursively.
func checkResult(v value.Value, r RSpec, path string) error {
	if v.IsUndefined() {
		return fmt.Errorf("%s: the internal undefined value where a Std::Result was stored", path)
	}
	if v.Class() != value.ResultClass {
		return fmt.Errorf("%s: class %s where a Std::Result was stored", path, v.Class().Name)
	}
	ok, e := callByName(v, "ok")
	if !e.IsUndefined() || ok.IsUndefined() || value.Truthy(ok) != r.Ok {
		return fmt.Errorf("%s.ok = %s (error %s), built with ok=%v", path, ok.Inspect(), e.Inspect(), r.Ok)
	}
	val, e1 := callByName(v, "value")
	er, e2 := callByName(v, "err")
	if !e1.IsUndefined() || !e2.IsUndefined() {
		return fmt.Errorf("%s: value/err raised %s / %s", path, e1.Inspect(), e2.Inspect())
	}
	if val.IsUndefined() || er.IsUndefined() {
		return fmt.Errorf("%s: value = %s, err = %s: the internal undefined value is neither an instance of the declared type nor nil (declared `value: Val?`, `err: Err?`)", path, val.Inspect(), er.Inspect())
	}
	stored, empty, sname := val, er, "value"
	if !r.Ok {
		stored, empty, sname = er, val, "err"
	}
	if !empty.IsNil() {
		return fmt.Errorf("%s: the accessor of the other side returned %s, documented nil", path, empty.Inspect())
	}
	if r.Nested != nil {
		return checkResult(stored, *r.Nested, path+"."+sname)
	}
	want := vgen.Build(*r.Scalar)
	if stored.Inspect() != want.Inspect() || stored.Class() != want.Class() {
		return fmt.Errorf("%s.%s = %s, stored %s", path, sname, stored.Inspect(), want.Inspect())
	}
	return nil
}

func TestResultNesting(t *testing.T) {
	pbt.Rule("result-nesting", "Std::Result values built with the natives Result.ok / Result.err around a scalar (nil, false, strings, numbers of every kind) or around another Result, nesting depth <= 3; the declared accessors are called by name on every level: ok: bool equals the constructor used, the stored side returns the stored payload (a Result again for nested ones), the other side nil, never the internal undefined value. Non-trivial = nesting depth >= 2; distinct by the printed shape")
	pbt.Run(t, pbt.Prop[RSpec]{Name: "result-nesting", Quick: 6000, Thorough: 200000,
		Gen: func(t *rapid.T) RSpec { return genRSpec(t, 3) },
		Oracle: func(r RSpec, ctx *pbt.Ctx) error {
			v, err := buildResult(r)
			if err != nil {
				return err
			}
			if r.Nested != nil {
				ctx.Label("nested")
				ctx.NonTrivial(describeResult(r))
			}
			if err := checkResult(v, r, describeResult(r)); err != nil {
				return err
			}
			return nil
		}})
}
