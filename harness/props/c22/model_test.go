package c22

// Independent proleptic-Gregorian civil calendar model on int64 (no use of the
// Go time package): days-from-civil / civil-from-days after the well-known
// era-based algorithm (400-year eras of 146097 days, years starting in March).

const (
	minYear = -(1 << 22)    // -4_194_304 (headers/date.elh)
	maxYear = (1 << 22) - 1 //  4_194_303
	nsDay   = int64(86400) * 1_000_000_000
)

func floorDiv(a, b int64) int64 {
	q := a / b
	if (a%b != 0) && ((a < 0) != (b < 0)) {
		q--
	}
	return q
}

func floorMod(a, b int64) int64 { return a - floorDiv(a, b)*b }

func isLeap(y int64) bool { return floorMod(y, 4) == 0 && (floorMod(y, 100) != 0 || floorMod(y, 400) == 0) }

func daysInMonth(y int64, m int) int {
	switch m {
	case 2:
		if isLeap(y) {
			return 29
		}
		return 28
	case 4, 6, 9, 11:
		return 30
	}
	return 31
}

// daysFromCivil returns the number of days since 1970-01-01.
func daysFromCivil(y int64, m, d int) int64 {
	if m <= 2 {
		y--
	}
	era := floorDiv(y, 400)
	yoe := y - era*400 // [0, 399]
	mp := int64(m) - 3
	if m <= 2 {
		mp = int64(m) + 9
	}
	doy := (153*mp+2)/5 + int64(d) - 1 // [0, 365]
	doe := yoe*365 + yoe/4 - yoe/100 + doy
	return era*146097 + doe - 719468
}

func civilFromDays(z int64) (y int64, m, d int) {
	z += 719468
	era := floorDiv(z, 146097)
	doe := z - era*146097                                  // [0, 146096]
	yoe := (doe - doe/1460 + doe/36524 - doe/146096) / 365 // [0, 399]
	y = yoe + era*400
	doy := doe - (365*yoe + yoe/4 - yoe/100) // [0, 365]
	mp := (5*doy + 2) / 153                  // [0, 11]
	d = int(doy - (153*mp+2)/5 + 1)
	if mp < 10 {
		m = int(mp + 3)
	} else {
		m = int(mp - 9)
	}
	if m <= 2 {
		y++
	}
	return
}

// weekday: 0 = Sunday … 6 = Saturday (1970-01-01 was a Thursday).
func weekdayOf(z int64) int { return int(floorMod(z+4, 7)) }

func yearDay(y int64, m, d int) int { return int(daysFromCivil(y, m, d)-daysFromCivil(y, 1, 1)) + 1 }

// isoWeekDate: ISO 8601 week-based year, week (1..53), weekday (1 = Monday … 7).
func isoWeekDate(y int64, m, d int) (iy int64, week, wd int) {
	z := daysFromCivil(y, m, d)
	wd = weekdayOf(z)
	if wd == 0 {
		wd = 7
	}
	// the Thursday of this week decides the ISO year
	thu := z + int64(4-wd)
	iy, _, _ = civilFromDays(thu)
	week = int((thu-daysFromCivil(iy, 1, 1))/7) + 1
	return
}

var (
	minZ = daysFromCivil(minYear, 1, 1)
	maxZ = daysFromCivil(maxYear, 12, 31)
)

func inRangeZ(z int64) bool { return z >= minZ && z <= maxZ }

// addMonths adds delta months to (y, m); the day is not touched.
func addMonths(y int64, m int, delta int64) (int64, int) {
	tm := y*12 + int64(m-1) + delta
	return floorDiv(tm, 12), int(floorMod(tm, 12)) + 1
}

type civil struct {
	Y int64
	M int
	D int
}

func (c civil) z() int64 { return daysFromCivil(c.Y, c.M, c.D) }

func fromZ(z int64) civil {
	y, m, d := civilFromDays(z)
	return civil{y, m, d}
}

// instant = (days since epoch, nanoseconds of day) of a UTC wall clock reading.
type instant struct {
	Z  int64
	NS int64
}

// addNS adds a nanosecond count (|t| < 2^63) without overflow.
func (i instant) addNS(t int64) instant {
	dz := floorDiv(t, nsDay)
	r := i.NS + floorMod(t, nsDay)
	if r >= nsDay {
		r -= nsDay
		dz++
	}
	return instant{i.Z + dz, r}
}
