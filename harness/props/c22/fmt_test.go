package c22

import (
	"regexp"
	"fmt"
	"strings"
	"testing"

	"github.com/elk-language/elk/value"
	"pgregory.net/rapid"

	"verif/internal/pbt"
	"verif/internal/vgen"
)

// ------------------------------------------------------------ strftime / parse round trip

type FmtCase struct {
	Kind  string `json:"kind"` // date | datetime
	V     dtime  `json:"v"`
	Fmt   string `json:"fmt"`
	Shape string `json:"shape"`
}

func (c FmtCase) String() string { return fmt.Sprintf("%s %v fmt=%q (%s)", c.Kind, c.V, c.Fmt, c.Shape) }

// separators: never a digit, a letter or a sign, so that every numeric / name
// directive ends at the separator and the format determines the value
var seps = []string{"-", "/", ".", " ", ", ", ":", "_", "|", "%%", "%n", "%t", " @ ", "--"}

func pick(t *rapid.T, xs []string, label string) string { return xs[vgen.Pick(t, len(xs), label)] }

func shuffle(t *rapid.T, xs []string, label string) []string {
	out := append([]string(nil), xs...)
	for i := len(out) - 1; i > 0; i-- {
		j := vgen.Pick(t, i+1, fmt.Sprintf("%s_%d", label, i))
		out[i], out[j] = out[j], out[i]
	}
	return out
}

// two-character numeric directives (zero- or space-padded): the field ends after two characters whatever follows
var fixed2 = map[string]bool{"%m": true, "%_m": true, "%d": true, "%_d": true, "%H": true, "%_H": true, "%M": true, "%_M": true,
	"%S": true, "%_S": true, "%I": true, "%_I": true, "%y": true, "%_y": true, "%V": true, "%_V": true, "%W": true, "%_W": true, "%U": true, "%_U": true}

// numeric directives (any padding)
func numericDir(d string) bool {
	if len(d) < 2 || d[0] != '%' {
		return false
	}
	c := d[len(d)-1]
	return strings.IndexByte("YmdjHMSIyCVWUuwG", c) >= 0 && (len(d) == 2 || (len(d) == 3 && (d[1] == '-' || d[1] == '_')))
}

func joinSep(t *rapid.T, parts []string, label string) string {
	var b strings.Builder
	for i, p := range parts {
		if i > 0 {
			// compact formats (`%Y%m%d`, `%H%M%S`): no separator after a fixed-width field when digits follow
			if fixed2[parts[i-1]] && numericDir(p) && vgen.Pick(t, 3, fmt.Sprintf("%s_adj%d", label, i)) == 0 {
				_ = 0
			} else {
				b.WriteString(pick(t, seps, fmt.Sprintf("%s_sep%d", label, i)))
			}
		}
		b.WriteString(p)
	}
	return b.String()
}

// a fixed-width numeric field directly followed by another numeric field
var adjacentRe = regexp.MustCompile(`%_?[mdHMSIyVWU]%[-_]?[YmdjHMSIyCVWUuwG]`)

var (
	yearDirs  = []string{"%Y", "%-Y", "%_Y"}
	monthDirs = []string{"%m", "%-m", "%_m", "%B", "%^B", "%b", "%^b"}
	dayDirs   = []string{"%d", "%-d", "%_d"}
	ydayDirs  = []string{"%j", "%-j", "%_j"}
	wdayDirs  = []string{"%u", "%A", "%^A", "%a", "%^a"}
)

// genDateFmt returns the date part of a format that determines (y, m, d).
func genDateFmt(t *rapid.T, c civil) (string, string) {
	n := 7
	switch vgen.Pick(t, n, "shape") {
	case 0:
		return "%F", "F"
	case 1:
		return joinSep(t, shuffle(t, []string{pick(t, yearDirs, "y"), pick(t, ydayDirs, "j")}, "ord"), "yj"), "Yj"
	case 2:
		if c.Y >= 0 && c.Y <= 9999 {
			parts := []string{pick(t, []string{"%C", "%-C", "%_C"}, "C"), pick(t, []string{"%y", "%-y", "%_y"}, "yy"), pick(t, monthDirs, "m"), pick(t, dayDirs, "d")}
			return joinSep(t, shuffle(t, parts, "ord"), "cy"), "Cymd"
		}
	case 3:
		parts := []string{pick(t, []string{"%G", "%-G", "%_G"}, "G"), pick(t, []string{"%V", "%-V", "%_V"}, "V"), pick(t, wdayDirs, "u")}
		return joinSep(t, shuffle(t, parts, "ord"), "gvu"), "GVu"
	case 4:
		parts := []string{pick(t, yearDirs, "y"), pick(t, []string{"%W", "%-W", "%_W"}, "W"), pick(t, wdayDirs, "u")}
		return joinSep(t, shuffle(t, parts, "ord"), "ywu"), "YWu"
	case 5:
		parts := []string{pick(t, yearDirs, "y"), pick(t, []string{"%U", "%-U", "%_U"}, "U"), "%w"}
		return joinSep(t, shuffle(t, parts, "ord"), "yuw"), "YUw"
	}
	parts := []string{pick(t, yearDirs, "y"), pick(t, monthDirs, "m"), pick(t, dayDirs, "d")}
	f := joinSep(t, shuffle(t, parts, "ord"), "ymd")
	shape := "Ymd"
	// a redundant but consistent directive must not change the result
	if vgen.Pick(t, 4, "redundant") == 0 {
		f += pick(t, seps, "rsep") + pick(t, []string{"%A", "%a", "%^A", "%u", "%w", "%j"}, "rdir")
		shape = "Ymd+redundant"
	}
	return f, shape
}

// genTimeFmt returns the time part and the precision (in ns) the format carries.
func genTimeFmt(t *rapid.T) (string, int64, bool) {
	var f string
	secs := true
	switch vgen.Pick(t, 6, "tshape") {
	case 0:
		f = "%T"
	case 1:
		f = "%R"
		secs = false
	case 2:
		f = "%r"
	case 3:
		// 12-hour clock with meridiem
		parts := []string{pick(t, []string{"%I", "%-I", "%_I"}, "I"), pick(t, []string{"%M", "%-M", "%_M"}, "M"), pick(t, []string{"%S", "%-S", "%_S"}, "S"), pick(t, []string{"%p", "%P"}, "p")}
		f = joinSep(t, parts, "t12")
	default:
		parts := []string{pick(t, []string{"%H", "%-H", "%_H"}, "H"), pick(t, []string{"%M", "%-M", "%_M"}, "M"), pick(t, []string{"%S", "%-S", "%_S"}, "S")}
		f = joinSep(t, parts, "t24")
	}
	prec := int64(1e9)
	if secs {
		switch vgen.Pick(t, 6, "frac") {
		case 0:
			f += "." + pick(t, []string{"%L", "%3N"}, "ms")
			prec = 1e6
		case 1:
			f += "." + "%6N"
			prec = 1e3
		case 2, 3:
			f += pick(t, []string{".", ","}, "fsep") + pick(t, []string{"%N", "%9N", "%12N", "%15N", "%18N", "%21N", "%24N"}, "ns")
			prec = 1
		}
	}
	return f, prec, secs
}

// genCivilParse: half of the values get a year in 0..9999 (the only years the
// parser reads back at present), with the usual month/day classes.
func genCivilParse(t *rapid.T, label string) civil {
	c := genCivil(t, label)
	if vgen.Pick(t, 2, label+"_4d") == 0 {
		switch vgen.Pick(t, 4, label+"_4c") {
		case 0:
			c.Y = rapid.SampledFrom([]int64{0, 1, 4, 9, 10, 99, 100, 400, 999, 1000, 1600, 1900, 2000, 2024, 9999}).Draw(t, label+"_4s")
		case 1:
			c.Y = rapid.Int64Range(1900, 2100).Draw(t, label+"_4m")
		default:
			c.Y = int64(vgen.Pick(t, 10000, label+"_4u"))
		}
		if c.D > daysInMonth(c.Y, c.M) {
			c.D = daysInMonth(c.Y, c.M)
		}
	}
	return c
}

func genFmtCase(t *rapid.T) FmtCase {
	c := FmtCase{Kind: "date", V: dtime{C: genCivilParse(t, "v")}}
	if vgen.Pick(t, 2, "kind") == 0 {
		c.Kind = "datetime"
	}
	df, shape := genDateFmt(t, c.V.C)
	c.Fmt, c.Shape = df, shape
	if c.Kind == "datetime" {
		tf, prec, secs := genTimeFmt(t)
		c.V.NS = genNSOfDay(t, "ns") / prec * prec
		if !secs {
			c.V.NS = c.V.NS / 60e9 * 60e9
		}
		// no letter may follow the date part: it can end in a month / weekday name
		c.Fmt = df + pick(t, []string{" ", "%t", ", ", " at ", " @ "}, "dtsep") + tf
		if vgen.Pick(t, 2, "zone") == 0 {
			c.V.Off = rapid.SampledFrom([]int{0, 60, -60, 330, -570, 840, -720, 1, -1, 1439, -1439}).Draw(t, "off")
			c.Fmt += pick(t, []string{" ", ""}, "zsep") + pick(t, []string{"%z", "%:z"}, "z")
			c.Shape += "+zone"
		}
	}
	if vgen.Pick(t, 5, "affix") == 0 {
		c.Fmt = pick(t, []string{"on ", "[", "%%", "%t"}, "pre") + c.Fmt + pick(t, []string{"]", "!", " h", "%n"}, "post")
	}
	return c
}

func parseVia(class *value.Class, s string, f *string) (value.Value, value.Value) {
	if f == nil {
		if class == value.DateClass || class == value.DateTimeClass {
			// compiled code passes undefined for the omitted optional `format` argument of the native
			return call(value.Ref(class), "parse", str(s), value.Undefined)
		}
		return call(value.Ref(class), "parse", str(s)) // the span parsers take one argument
	}
	return call(value.Ref(class), "parse", str(s), str(*f))
}

func fmtOracle(c FmtCase, ctx *pbt.Ctx) error {
	ctx.Label("kind:" + c.Kind)
	ctx.Label("shape:" + c.Shape)
	if adjacentRe.MatchString(c.Fmt) {
		ctx.Label("adjacent_numeric_fields")
	}
	what := c.String()
	var v value.Value
	var err error
	var class *value.Class
	if c.Kind == "date" {
		v, err = mkDate(c.V.C)
		class = value.DateClass
	} else {
		v, err = mkDateTime(c.V)
		class = value.DateTimeClass
	}
	if err != nil {
		return err
	}
	if (c.V.C.Y < 0 || c.V.C.Y > 9999) && pbt.KnownActive("year-outside-0-9999-does-not-parse") {
		ctx.Excluded("year-outside-0-9999-does-not-parse")
		return nil
	}
	if strings.HasPrefix(c.Shape, "GV") || strings.HasPrefix(c.Shape, "YW") || strings.HasPrefix(c.Shape, "YU") {
		if pbt.KnownActive("week-based-formats-do-not-round-trip") {
			ctx.Excluded("week-based-formats-do-not-round-trip")
			return nil
		}
	}
	s, e := call(v, "strftime", str(c.Fmt))
	if !e.IsUndefined() {
		return fmt.Errorf("%s: strftime raised %s", what, errText(e))
	}
	text, ok := s.SafeAsReference().(value.String)
	if !ok {
		return fmt.Errorf("%s: strftime returned %s", what, insp(s))
	}
	p, e := parseVia(class, string(text), &c.Fmt)
	if !e.IsUndefined() {
		return fmt.Errorf("%s: parse(%q, fmt) raised %s", what, string(text), errText(e))
	}
	where := fmt.Sprintf("%s: parse(%q, fmt)", what, string(text))
	if c.Kind == "date" {
		err = checkDate(where, p, c.V.C)
	} else {
		err = checkDateTime(where, p, c.V)
	}
	if err != nil {
		return err
	}
	y := c.V.C.Y
	if y < 1000 || y > 9999 || nearEnd(y) || (c.V.C.M == 2 && c.V.C.D == 29) || c.V.C.D == daysInMonth(y, c.V.C.M) ||
		c.V.Off != 0 || !strings.HasPrefix(c.Shape, "Ymd") {
		ctx.NonTrivial(what)
	}
	return nil
}

func TestFormatRoundTrip(t *testing.T) {
	pbt.Rule("format_roundtrip", "Date / DateTime values as in date_arith (plus fixed-offset zones) formatted with strftime and parsed back with the same format; formats are built only from shapes that determine the value: %F; year(%Y %-Y %_Y) month(%m %-m %_m %B %^B %b %^b) day(%d %-d %_d) in any order; century+%y (years 0..9999); year + day-of-year; ISO %G %V + weekday; %Y %W + weekday; %Y %U %w; time as %T %R %r, 24h and 12h+meridiem fields, fractions %L %3N %6N %N %9N..%24N (value rounded to the carried precision), zone %z %:z; components separated by non-alphanumeric literals incl. %% %n %t; optional redundant consistent directive; oracle: parse(strftime(v, f), f) == v field by field and by ==; non-trivial = year outside 1000..9999, range end, leap day / month end, non-UTC zone, or a non-Ymd shape")
	pbt.Run(t, pbt.Prop[FmtCase]{Name: "format_roundtrip", Quick: 100000, Thorough: 3000000, Gen: genFmtCase, Oracle: fmtOracle,
		Sample: func(c FmtCase) any { return c.String() }})
}

// ------------------------------------------------------------ to_string / parse round trip

type StrCase struct {
	Kind string `json:"kind"` // date | datetime | date_span | time_span | datetime_span
	V    dtime  `json:"v"`
	Mo   int64  `json:"mo,omitempty"`
	D    int64  `json:"d,omitempty"`
	T    int64  `json:"t,omitempty"`
	Via  string `json:"via,omitempty"`
}

func (c StrCase) String() string {
	return fmt.Sprintf("%s v=%v mo=%d d=%d t=%d via=%s", c.Kind, c.V, c.Mo, c.D, c.T, c.Via)
}

func genI32(t *rapid.T, label string) int64 {
	switch vgen.Pick(t, 6, label+"_c") {
	case 0:
		return 0
	case 1, 2:
		return rapid.Int64Range(-40, 40).Draw(t, label+"_small")
	case 3:
		return rapid.Int64Range(-(1<<31)+1, 1<<31-1).Draw(t, label+"_any")
	default:
		return int64(vgen.Pick(t, 2_000_001, label+"_mid")) - 1_000_000
	}
}

func genStrCase(t *rapid.T) StrCase {
	c := StrCase{Kind: rapid.SampledFrom([]string{"date", "date", "datetime", "datetime", "date_span", "time_span", "datetime_span"}).Draw(t, "kind")}
	switch c.Kind {
	case "date":
		c.V.C = genCivilParse(t, "v")
		c.Via = rapid.SampledFrom([]string{"default", "explicit"}).Draw(t, "via")
	case "datetime":
		c.V = genDTime(t, "v")
		c.V.C = genCivilParse(t, "vc")
		c.Via = rapid.SampledFrom([]string{"default", "explicit"}).Draw(t, "via")
	case "date_span":
		c.Mo, c.D = genI32(t, "mo"), genI32(t, "d")
	case "time_span":
		c.T = genTimeNS(t, "t")
	case "datetime_span":
		c.Mo, c.D = genI32(t, "mo"), genI32(t, "d")
		c.T = genTimeNS(t, "t") % nsDay * 3
	}
	return c
}

func strOracle(c StrCase, ctx *pbt.Ctx) error {
	ctx.Label("kind:" + c.Kind)
	what := c.String()
	var v value.Value
	var err error
	var class *value.Class
	switch c.Kind {
	case "date":
		v, err = mkDate(c.V.C)
		class = value.DateClass
	case "datetime":
		v, err = mkDateTime(c.V)
		class = value.DateTimeClass
	case "date_span":
		v, err = mkDateSpan(0, c.Mo, c.D)
		class = value.DateSpanClass
	case "time_span":
		v, err = timeSpanVal(c.T)
		class = value.TimeSpanClass
	case "datetime_span":
		var e value.Value
		v, e = call(dummyDTSpan, "#init", si(0), si(c.Mo), si(c.D), si(0), si(0), si(0), si(0), si(0), si(c.T))
		if !e.IsUndefined() {
			return fmt.Errorf("%s: DateTime::Span(...) raised %s", what, errText(e))
		}
		class = value.DateTimeSpanClass
	default:
		return fmt.Errorf("unknown kind %q", c.Kind)
	}
	if err != nil {
		return err
	}
	if (c.Kind == "date" || c.Kind == "datetime") && (c.V.C.Y < 0 || c.V.C.Y > 9999) && pbt.KnownActive("year-outside-0-9999-does-not-parse") {
		ctx.Excluded("year-outside-0-9999-does-not-parse")
		return nil
	}
	s, e := call(v, "to_string")
	if !e.IsUndefined() {
		return fmt.Errorf("%s: to_string raised %s", what, errText(e))
	}
	text, ok := s.SafeAsReference().(value.String)
	if !ok {
		return fmt.Errorf("%s: to_string returned %s", what, insp(s))
	}
	var p value.Value
	if c.Via == "explicit" {
		f := value.DefaultDateFormat
		if c.Kind == "datetime" {
			f = value.DefaultDateTimeFormat
		}
		p, e = parseVia(class, string(text), &f)
	} else {
		p, e = parseVia(class, string(text), nil)
	}
	if !e.IsUndefined() {
		return fmt.Errorf("%s: parse(%q) raised %s", what, string(text), errText(e))
	}
	where := fmt.Sprintf("%s: parse(%q)", what, string(text))
	switch c.Kind {
	case "date":
		if err := checkDate(where, p, c.V.C); err != nil {
			return err
		}
		if c.V.C.Y < 1000 || c.V.C.Y > 9999 || nearEnd(c.V.C.Y) {
			ctx.NonTrivial(what)
		}
	case "datetime":
		if err := checkDateTime(where, p, c.V); err != nil {
			return err
		}
		if c.V.C.Y < 1000 || c.V.C.Y > 9999 || nearEnd(c.V.C.Y) || c.V.Off != 0 {
			ctx.NonTrivial(what)
		}
	default:
		if p.Class() != v.Class() {
			return fmt.Errorf("%s = %s (%s), want a %s", where, insp(p), p.Class().Name, v.Class().Name)
		}
		eq, err := isTrue(p, "==", v)
		if err != nil {
			return err
		}
		if !eq {
			return fmt.Errorf("%s = %s, want %s", where, insp(p), insp(v))
		}
		// non-trivial: negative or multi-component span
		if c.Mo < 0 || c.D < 0 || c.T < 0 || (c.Mo != 0 && c.D != 0) || (c.T != 0 && c.T%1e9 != 0) || c.Mo > 11 || c.Mo < -11 {
			ctx.NonTrivial(what)
		}
	}
	return nil
}

func TestToStringRoundTrip(t *testing.T) {
	pbt.Rule("to_string_roundtrip", "Date.parse(d.to_string) == d and DateTime.parse(dt.to_string) == dt (default format argument and explicit DEFAULT_FORMAT) over the whole year range incl. negative and >4-digit years and fixed-offset zones; Date::Span / Time::Span / DateTime::Span .parse(s.to_string) == s for month and day counts of both signs over int32 and nanosecond counts up to +-2^63; non-trivial = year outside 1000..9999 or near a range end or non-UTC zone; spans: negative, multi-component or sub-second")
	pbt.Run(t, pbt.Prop[StrCase]{Name: "to_string_roundtrip", Quick: 80000, Thorough: 2500000, Gen: genStrCase, Oracle: strOracle,
		Sample: func(c StrCase) any { return c.String() }})
}
