// Package c22: calendar arithmetic is exact, never wraps, and formatting
// round-trips (property C22).  Value-level, in-process: every operation goes
// through the VM's native methods with th.CallMethodByName, the expected
// results come from the independent civil-date model in model_test.go.
package c22

import (
	"fmt"
	"os"
	"strings"
	"testing"
	"time"

	"github.com/elk-language/elk"
	"github.com/elk-language/elk/env"
	"github.com/elk-language/elk/value"
	"github.com/elk-language/elk/vm"
	"pgregory.net/rapid"

	"verif/internal/pbt"
	"verif/internal/vgen"
)

var th *vm.Thread

func TestMain(m *testing.M) {
	// the implementation routes every Date through the *local* time zone; the
	// check pins it to UTC (stated assumption) so that runs are reproducible
	os.Setenv("TZ", "UTC")
	if env.ELKPATH == "" {
		env.ELKPATH = "/repo"
	}
	elk.InitGlobalEnvironment()
	th = vm.New()
	if time.Local.String() != "UTC" {
		if _, off := time.Now().Zone(); off != 0 {
			fmt.Println("C22: local time zone is not UTC; the check assumes TZ=UTC")
			os.Exit(2)
		}
	}
	pbt.Main(m, "C22")
}

// ------------------------------------------------------------ VM access

func call(recv value.Value, name string, args ...value.Value) (value.Value, value.Value) {
	all := make([]value.Value, 0, len(args)+1)
	all = append(all, recv)
	all = append(all, args...)
	return th.CallMethodByName(value.ToSymbol(name), all...)
}

func si(n int64) value.Value { return value.SmallInt(n).ToValue() }

func str(s string) value.Value { return value.Ref(value.String(s)) }

func insp(v value.Value) string {
	if v.IsUndefined() {
		return "undefined"
	}
	return v.Inspect()
}

func errText(e value.Value) string {
	if e.IsUndefined() {
		return "no error"
	}
	return e.Class().Name + ": " + e.Inspect()
}

// intOf calls a nullary native returning an Int.
func intOf(v value.Value, name string) (int64, error) {
	r, e := call(v, name)
	if !e.IsUndefined() {
		return 0, fmt.Errorf("%s.%s raised %s", insp(v), name, errText(e))
	}
	if !r.IsSmallInt() {
		return 0, fmt.Errorf("%s.%s = %s, not a small Int", insp(v), name, insp(r))
	}
	return int64(r.AsSmallInt()), nil
}

func isTrue(recv value.Value, name string, arg value.Value) (bool, error) {
	r, e := call(recv, name, arg)
	if !e.IsUndefined() {
		return false, fmt.Errorf("%s %s %s raised %s", insp(recv), name, insp(arg), errText(e))
	}
	if !(r.IsTrue() || r.IsFalse()) {
		return false, fmt.Errorf("%s %s %s = %s, not a bool", insp(recv), name, insp(arg), insp(r))
	}
	return r.IsTrue(), nil
}

// mkDate builds a Date the way `Date(y, m, d)` does (native #init).
func mkDate(c civil) (value.Value, error) {
	v, e := call(value.Date{}.ToValue(), "#init", si(c.Y), si(int64(c.M)), si(int64(c.D)))
	if !e.IsUndefined() {
		return value.Undefined, fmt.Errorf("Date(%d, %d, %d) raised %s", c.Y, c.M, c.D, errText(e))
	}
	if !v.IsDate() {
		return value.Undefined, fmt.Errorf("Date(%d, %d, %d) returned %s", c.Y, c.M, c.D, insp(v))
	}
	return v, nil
}

// readDate reads a Date through its natives.
func readDate(v value.Value) (civil, error) {
	if !v.IsDate() {
		return civil{}, fmt.Errorf("%s (%s) is not a Date", insp(v), v.Class().Name)
	}
	y, err := intOf(v, "year")
	if err != nil {
		return civil{}, err
	}
	m, err := intOf(v, "month")
	if err != nil {
		return civil{}, err
	}
	d, err := intOf(v, "day")
	if err != nil {
		return civil{}, err
	}
	return civil{y, int(m), int(d)}, nil
}

func checkDate(what string, got value.Value, want civil) error {
	c, err := readDate(got)
	if err != nil {
		return fmt.Errorf("%s: %v", what, err)
	}
	if c != want {
		return fmt.Errorf("%s = %04d-%02d-%02d, want %04d-%02d-%02d", what, c.Y, c.M, c.D, want.Y, want.M, want.D)
	}
	exp, err := mkDate(want)
	if err != nil {
		return err
	}
	eq, err := isTrue(got, "==", exp)
	if err != nil {
		return err
	}
	if !eq {
		return fmt.Errorf("%s: %s == %s is false although all fields agree", what, insp(got), insp(exp))
	}
	return nil
}

type dtime struct {
	C   civil `json:"c"`
	NS  int64 `json:"ns"`  // nanoseconds of the day, wall clock
	Off int   `json:"off"` // zone offset east of UTC in minutes
}

func (d dtime) String() string {
	return fmt.Sprintf("%04d-%02d-%02d+%dns@%+dmin", d.C.Y, d.C.M, d.C.D, d.NS, d.Off)
}

func zoneVal(off int) value.Value {
	return value.Ref(value.NewTimezoneFromOffset(value.TimeSpan(off) * value.Minute))
}

var dummyDT = value.Ref(&value.DateTime{})

// mkDateTime builds a DateTime the way `DateTime(y, m, d, h, mi, s, ms, us, ns, zone)` does.
func mkDateTime(d dtime) (value.Value, error) {
	ns := d.NS
	h, mi, s := ns/3600e9, ns/60e9%60, ns/1e9%60
	f := ns % 1e9
	v, e := call(dummyDT, "#init", si(d.C.Y), si(int64(d.C.M)), si(int64(d.C.D)), si(h), si(mi), si(s),
		si(f/1e6), si(f/1e3%1e3), si(f%1e3), zoneVal(d.Off))
	if !e.IsUndefined() {
		return value.Undefined, fmt.Errorf("DateTime(%v) raised %s", d, errText(e))
	}
	if _, ok := v.SafeAsReference().(*value.DateTime); !ok {
		return value.Undefined, fmt.Errorf("DateTime(%v) returned %s", d, insp(v))
	}
	return v, nil
}

func readDateTime(v value.Value) (dtime, error) {
	if _, ok := v.SafeAsReference().(*value.DateTime); !ok {
		return dtime{}, fmt.Errorf("%s (%s) is not a DateTime", insp(v), v.Class().Name)
	}
	var f [7]int64
	for i, n := range []string{"year", "month", "day", "hour", "minute", "second", "nanoseconds_in_second"} {
		x, err := intOf(v, n)
		if err != nil {
			return dtime{}, err
		}
		f[i] = x
	}
	off, e := call(v, "zone_offset")
	if !e.IsUndefined() {
		return dtime{}, fmt.Errorf("%s.zone_offset raised %s", insp(v), errText(e))
	}
	ts, ok := off.AsTimeSpanOk()
	if !ok {
		return dtime{}, fmt.Errorf("%s.zone_offset = %s", insp(v), insp(off))
	}
	return dtime{civil{f[0], int(f[1]), int(f[2])}, f[3]*3600e9 + f[4]*60e9 + f[5]*1e9 + f[6], int(int64(ts) / int64(value.Minute))}, nil
}

func checkDateTime(what string, got value.Value, want dtime) error {
	d, err := readDateTime(got)
	if err != nil {
		return fmt.Errorf("%s: %v", what, err)
	}
	if d != want {
		return fmt.Errorf("%s = %v, want %v", what, d, want)
	}
	exp, err := mkDateTime(want)
	if err != nil {
		return err
	}
	eq, err := isTrue(got, "==", exp)
	if err != nil {
		return err
	}
	if !eq {
		return fmt.Errorf("%s: %s == %s is false although all fields agree", what, insp(got), insp(exp))
	}
	return nil
}

// mustRaise: the model result is outside the representable range.
func mustRaise(what string, res, err value.Value) error {
	if err.IsUndefined() {
		return fmt.Errorf("%s: the exact result lies outside the year range %d..%d, so the operation must raise; it returned %s", what, minYear, maxYear, insp(res))
	}
	return nil
}

func intSpan(n int64, unit string) (value.Value, error) {
	v, e := call(si(n), unit)
	if !e.IsUndefined() {
		return value.Undefined, fmt.Errorf("%d.%s raised %s", n, unit, errText(e))
	}
	return v, nil
}

var dummyDateSpan = value.MakeDateSpan(0, 0, 0).ToValue()

func mkDateSpan(y, m, d int64) (value.Value, error) {
	v, e := call(dummyDateSpan, "#init", si(y), si(m), si(d))
	if !e.IsUndefined() {
		return value.Undefined, fmt.Errorf("Date::Span(%d, %d, %d) raised %s", y, m, d, errText(e))
	}
	return v, nil
}

var dummyDTSpan = value.Ref(value.NewDateTimeSpan(value.MakeDateSpan(0, 0, 0), 0))

// ------------------------------------------------------------ generators

var specialYears = []int64{-400, -100, -4, -1, 0, 1, 4, 99, 100, 400, 999, 1000, 1582, 1600, 1900, 1970, 2000, 2024, 2100, 2400,
	9999, 10000, -99, -999, -1000, -9999, -10000, 99999, 100000, -100000, 999999, 1000000}

func genYear(t *rapid.T, label string) int64 {
	switch vgen.Pick(t, 12, label+"_yc") {
	case 0:
		return minYear + rapid.Int64Range(0, 400).Draw(t, label+"_lo")
	case 1:
		return maxYear - rapid.Int64Range(0, 400).Draw(t, label+"_hi")
	case 2:
		return rapid.Int64Range(-5, 5).Draw(t, label+"_zero")
	case 3:
		return rapid.Int64Range(1900, 2100).Draw(t, label+"_modern")
	case 4:
		return rapid.SampledFrom(specialYears).Draw(t, label+"_special")
	case 5:
		return 100 * rapid.Int64Range(-41943, 41943).Draw(t, label+"_century")
	case 6, 7:
		return int64(vgen.Pick(t, maxYear-minYear+1, label+"_uni")) + minYear
	case 8:
		if rapid.Bool().Draw(t, label+"_end") {
			return maxYear
		}
		return minYear
	default:
		return rapid.Int64Range(-10000, 10000).Draw(t, label+"_4d")
	}
}

func genCivil(t *rapid.T, label string) civil {
	y := genYear(t, label)
	m := 1 + vgen.Pick(t, 12, label+"_m")
	switch vgen.Pick(t, 9, label+"_dc") {
	case 0:
		return civil{y, 1, 1}
	case 1:
		return civil{y, 12, 31}
	case 2:
		return civil{y, 2, 28}
	case 3:
		return civil{y, 2, daysInMonth(y, 2)}
	case 4:
		return civil{y, 3, 1}
	case 5:
		return civil{y, m, daysInMonth(y, m)}
	case 6:
		return civil{y, m, 1}
	default:
		return civil{y, m, 1 + vgen.Pick(t, daysInMonth(y, m), label+"_d")}
	}
}

func genNSOfDay(t *rapid.T, label string) int64 {
	switch vgen.Pick(t, 6, label+"_nc") {
	case 0:
		return 0
	case 1:
		return nsDay - 1
	case 2:
		return rapid.Int64Range(0, 86399).Draw(t, label+"_s") * 1e9
	case 3:
		return nsDay - 1 - rapid.Int64Range(0, 2_000_000_000).Draw(t, label+"_late")
	default:
		return int64(vgen.Pick(t, 86400, label+"_sec"))*1e9 + int64(vgen.Pick(t, 1_000_000_000, label+"_frac"))
	}
}

func clamp32(n int64) int64 {
	if n > 1<<31-1 {
		return 1<<31 - 1
	}
	if n < -(1<<31 - 1) {
		return -(1<<31 - 1) // -2^31 cannot be negated in a Date::Span
	}
	return n
}

// genDays: day counts of both signs, biased to land near the range ends.
func genDays(t *rapid.T, from civil, label string) int64 {
	z := from.z()
	switch vgen.Pick(t, 10, label+"_c") {
	case 0, 1, 2:
		return rapid.Int64Range(-40, 40).Draw(t, label+"_small")
	case 3:
		n := rapid.Int64Range(300, 800).Draw(t, label+"_year")
		if rapid.Bool().Draw(t, label+"_neg") {
			return -n
		}
		return n
	case 4:
		n := 146097*rapid.Int64Range(1, 5).Draw(t, label+"_era") + rapid.Int64Range(-2, 2).Draw(t, label+"_d")
		if rapid.Bool().Draw(t, label+"_neg") {
			return -n
		}
		return n
	case 5:
		return clamp32(maxZ - z + rapid.Int64Range(-400, 400).Draw(t, label+"_hi"))
	case 6:
		return clamp32(minZ - z + rapid.Int64Range(-400, 400).Draw(t, label+"_lo"))
	case 7:
		return rapid.Int64Range(-(1<<31 - 1), 1<<31-1).Draw(t, label+"_any")
	case 8:
		// around the +-106751 day mark (2^63 ns) and other powers of two
		k := int64(1) << uint(rapid.IntRange(10, 30).Draw(t, label+"_pow"))
		if rapid.Bool().Draw(t, label+"_p106") {
			k = 106751
		}
		n := k + rapid.Int64Range(-2, 2).Draw(t, label+"_pd")
		if rapid.Bool().Draw(t, label+"_neg") {
			return -n
		}
		return n
	default:
		return int64(vgen.Pick(t, 4_000_000, label+"_mid")) - 2_000_000
	}
}

func genMonths(t *rapid.T, from civil, label string) int64 {
	switch vgen.Pick(t, 8, label+"_c") {
	case 0, 1, 2:
		return rapid.Int64Range(-30, 30).Draw(t, label+"_small")
	case 3:
		return 12 * rapid.Int64Range(-500, 500).Draw(t, label+"_yrs")
	case 4:
		return (maxYear-from.Y)*12 + rapid.Int64Range(-14, 14).Draw(t, label+"_hi")
	case 5:
		return (minYear-from.Y)*12 + rapid.Int64Range(-14, 14).Draw(t, label+"_lo")
	case 6:
		return int64(vgen.Pick(t, 200_000_001, label+"_uni")) - 100_000_000
	default:
		return rapid.Int64Range(-5000, 5000).Draw(t, label+"_mid")
	}
}

// ------------------------------------------------------------ non-trivial rule

func nearEnd(y int64) bool { return y-minYear <= 400 || maxYear-y <= 400 }

// interesting: the operation crosses a month/year/leap boundary, touches a
// negative year, or an operand/result lies within 400 years of a range end.
func interesting(a, b civil) bool {
	return a.Y < 0 || b.Y < 0 || nearEnd(a.Y) || nearEnd(b.Y) || a.Y != b.Y || a.M != b.M ||
		(a.M == 2 && a.D == 29) || (b.M == 2 && b.D == 29)
}

// ------------------------------------------------------------ Date arithmetic

type DateCase struct {
	Op  string `json:"op"`
	A   civil  `json:"a"`
	B   civil  `json:"b,omitempty"`
	N   int64  `json:"n,omitempty"`  // days
	Mo  int64  `json:"mo,omitempty"` // months
	Yr  int64  `json:"yr,omitempty"` // years
	Via string `json:"via,omitempty"`
}

func (c DateCase) String() string {
	return fmt.Sprintf("%s a=%v b=%v n=%d mo=%d yr=%d via=%s", c.Op, c.A, c.B, c.N, c.Mo, c.Yr, c.Via)
}

var dateOps = []string{"add_days", "add_days", "sub_days", "sub_days", "add_months", "sub_months", "add_years", "sub_years",
	"add_span", "sub_span", "diff", "roundtrip", "roundtrip", "construct"}

func genDateCase(t *rapid.T) DateCase {
	c := DateCase{Op: dateOps[vgen.Pick(t, len(dateOps), "op")], A: genCivil(t, "a")}
	switch c.Op {
	case "add_days", "sub_days":
		c.N = genDays(t, c.A, "n")
		if c.Op == "sub_days" {
			c.N = clamp32(-genDays(t, c.A, "n2")) // so that a - n lands near the ends too
		}
	case "add_months", "sub_months":
		c.Mo = genMonths(t, c.A, "mo")
		if c.Op == "sub_months" {
			c.Mo = -c.Mo
		}
	case "add_years", "sub_years":
		c.Yr = genMonths(t, c.A, "yr") / 12
		if c.Op == "sub_years" {
			c.Yr = -c.Yr
		}
	case "add_span", "sub_span":
		c.Yr = rapid.Int64Range(-3, 3).Draw(t, "sy")
		c.Mo = rapid.Int64Range(-14, 14).Draw(t, "sm")
		c.N = rapid.Int64Range(-45, 45).Draw(t, "sd")
		if vgen.Pick(t, 4, "sbig") == 0 {
			c.Mo = genMonths(t, c.A, "smo")
			if c.Op == "sub_span" {
				c.Mo = -c.Mo
			}
		}
	case "diff", "roundtrip":
		switch vgen.Pick(t, 4, "bc") {
		case 0:
			c.B = fromZ(c.A.z() + rapid.Int64Range(-70, 70).Draw(t, "near"))
			if !inRangeZ(c.B.z()) {
				c.B = c.A
			}
		case 1:
			c.B = civil{c.A.Y + rapid.Int64Range(-2, 2).Draw(t, "by"), 1 + vgen.Pick(t, 12, "bm"), 1}
			if c.B.Y < minYear || c.B.Y > maxYear {
				c.B.Y = c.A.Y
			}
			c.B.D = 1 + vgen.Pick(t, daysInMonth(c.B.Y, c.B.M), "bd")
		default:
			c.B = genCivil(t, "b")
		}
		c.Via = rapid.SampledFrom([]string{"-@1", "diff", "diff@1"}).Draw(t, "via")
	case "construct":
		if vgen.Pick(t, 2, "oor") == 0 {
			// out-of-range year: must raise, never wrap
			d := rapid.Int64Range(1, 1<<40).Draw(t, "beyond")
			if rapid.Bool().Draw(t, "below") {
				c.A.Y = minYear - d
			} else {
				c.A.Y = maxYear + d
			}
		}
	}
	return c
}

// applySpan evaluates a +/- (yr, mo, n) in the two orders the docs leave open;
// ok=false when a month-end clamp would be needed or the orders disagree.
func applySpan(a civil, months, days int64) (res civil, ok bool) {
	// months first
	y1, m1 := addMonths(a.Y, a.M, months)
	if a.D > daysInMonth(y1, m1) {
		return civil{}, false
	}
	r1 := fromZ(civil{y1, m1, a.D}.z() + days)
	// days first
	c2 := fromZ(a.z() + days)
	y2, m2 := addMonths(c2.Y, c2.M, months)
	if c2.D > daysInMonth(y2, m2) {
		return civil{}, false
	}
	r2 := civil{y2, m2, c2.D}
	if r1 != r2 {
		return civil{}, false
	}
	return r1, true
}

func dateOracle(c DateCase, ctx *pbt.Ctx) error {
	ctx.Label("op:" + c.Op)
	if c.Op == "construct" {
		v, e := call(value.Date{}.ToValue(), "#init", si(c.A.Y), si(int64(c.A.M)), si(int64(c.A.D)))
		if c.A.Y < minYear || c.A.Y > maxYear {
			if err := mustRaise(fmt.Sprintf("Date(%d, %d, %d)", c.A.Y, c.A.M, c.A.D), v, e); err != nil {
				return err
			}
			ctx.NonTrivial(c.String())
			return nil
		}
		if !e.IsUndefined() {
			return fmt.Errorf("Date(%d, %d, %d) raised %s", c.A.Y, c.A.M, c.A.D, errText(e))
		}
		if err := checkDate("Date(y, m, d)", v, c.A); err != nil {
			return err
		}
		if interesting(c.A, c.A) {
			ctx.NonTrivial(c.String())
		}
		return nil
	}
	a, err := mkDate(c.A)
	if err != nil {
		return err
	}
	what := c.String()
	switch c.Op {
	case "add_days", "sub_days", "add_months", "sub_months", "add_years", "sub_years", "add_span", "sub_span":
		var span value.Value
		var months, days int64
		switch c.Op {
		case "add_days", "sub_days":
			span, err = intSpan(c.N, "days")
			days = c.N
		case "add_months", "sub_months":
			span, err = intSpan(c.Mo, "months")
			months = c.Mo
		case "add_years", "sub_years":
			span, err = intSpan(c.Yr, "years")
			months = 12 * c.Yr
		default:
			span, err = mkDateSpan(c.Yr, c.Mo, c.N)
			months, days = 12*c.Yr+c.Mo, c.N
		}
		if err != nil {
			return err
		}
		op := "+"
		if strings.HasPrefix(c.Op, "sub") {
			op = "-"
			months, days = -months, -days
		}
		want, ok := applySpan(c.A, months, days)
		if !ok {
			ctx.Label("undefined:month-end-clamp-or-order")
			return nil
		}
		res, e := call(a, op, span)
		if want.Y < minYear || want.Y > maxYear {
			ctx.Label("out-of-range")
			if err := mustRaise(what, res, e); err != nil {
				return err
			}
			ctx.NonTrivial(what)
			return nil
		}
		if !e.IsUndefined() {
			return fmt.Errorf("%s raised %s, want %v", what, errText(e), want)
		}
		if err := checkDate(what, res, want); err != nil {
			return err
		}
		if interesting(c.A, want) {
			ctx.NonTrivial(what)
		}
		return nil
	case "diff", "roundtrip":
		b, err := mkDate(c.B)
		if err != nil {
			return err
		}
		// b - a
		span, e := call(b, c.Via, a)
		if !e.IsUndefined() {
			return fmt.Errorf("%s: b %s a raised %s", what, c.Via, errText(e))
		}
		if _, ok := span.AsDateSpanOk(); !ok {
			return fmt.Errorf("%s: b %s a = %s (%s), want a Date::Span", what, c.Via, insp(span), span.Class().Name)
		}
		if c.Op == "diff" {
			// field-wise difference (vm/date.elk.test: Date(1999,2,20) - Date(1990) == 9Y 1M 19D)
			exp, err := mkDateSpan(0, (c.B.Y-c.A.Y)*12+int64(c.B.M-c.A.M), int64(c.B.D-c.A.D))
			if err != nil {
				return err
			}
			eq, err := isTrue(span, "==", exp)
			if err != nil {
				return err
			}
			if !eq {
				return fmt.Errorf("%s: b - a = %s, want %s", what, insp(span), insp(exp))
			}
		} else {
			res, e := call(a, "+", span)
			if !e.IsUndefined() {
				return fmt.Errorf("%s: a + (b - a) raised %s; b - a = %s", what, errText(e), insp(span))
			}
			if err := checkDate(fmt.Sprintf("%s: a + (b - a) with b - a = %s", what, insp(span)), res, c.B); err != nil {
				return err
			}
		}
		if interesting(c.A, c.B) {
			ctx.NonTrivial(what)
		}
		return nil
	}
	return fmt.Errorf("unknown op %q", c.Op)
}

func TestDateArith(t *testing.T) {
	pbt.Rule("date_arith", "Dates over the whole year range -4194304..4194303 (range ends +-400 y, years around 0, 4-digit boundaries, century/400-year marks, uniform) x (Jan 1, Dec 31, Feb 28/29, Mar 1, month ends, random day); operations through the natives: d +/- n.days (n in int32, biased to month/year crossings, 400-year eras, 2^k, the 106751-day mark and to land within 400 days of either range end), d +/- k.months / k.years / Date::Span(y, m, d) only where no month-end clamp is needed and days-first and months-first evaluation agree (the only forms the tests pin down), b - a (-, -@1, diff, diff@1) field-wise as in vm/date.elk.test, a + (b - a) == b, Date(y, m, d) incl. out-of-range years; oracle = independent days-from-civil model; a model result outside the year range must raise; non-trivial = month/year/leap-day crossing, negative year, or operand/result within 400 years of a range end")
	pbt.Run(t, pbt.Prop[DateCase]{Name: "date_arith", Quick: 160000, Thorough: 5000000, Gen: genDateCase, Oracle: dateOracle,
		Sample: func(c DateCase) any { return c.String() }})
}

// ------------------------------------------------------------ DateTime arithmetic

type DTCase struct {
	Op  string `json:"op"`
	A   dtime  `json:"a"`
	B   dtime  `json:"b,omitempty"`
	T   int64  `json:"t,omitempty"` // nanoseconds
	N   int64  `json:"n,omitempty"` // days
	Via string `json:"via,omitempty"`
}

func (c DTCase) String() string {
	return fmt.Sprintf("%s a=%v b=%v t=%d n=%d via=%s", c.Op, c.A, c.B, c.T, c.N, c.Via)
}

var dtOps = []string{"add_time", "add_time", "sub_time", "add_days", "sub_days", "add_dts", "sub_dts", "date_add_time", "date_sub_dts", "roundtrip", "roundtrip_date", "to_date", "date_parts"}

func genTimeNS(t *rapid.T, label string) int64 {
	var n int64
	switch vgen.Pick(t, 8, label+"_c") {
	case 0:
		n = rapid.Int64Range(0, 3).Draw(t, label+"_tiny")
	case 1:
		n = rapid.Int64Range(0, 172800).Draw(t, label+"_secs") * 1e9
	case 2:
		n = nsDay*rapid.Int64Range(0, 800).Draw(t, label+"_days") + rapid.Int64Range(-1, 1).Draw(t, label+"_d")
	case 3:
		n = 1<<63 - 1 - rapid.Int64Range(0, 1000).Draw(t, label+"_max")
	case 4:
		n = rapid.Int64Range(0, 1<<62).Draw(t, label+"_any")
	default:
		n = int64(vgen.Pick(t, 200_000, label+"_s"))*1e9 + int64(vgen.Pick(t, 1_000_000_000, label+"_f"))
	}
	if rapid.Bool().Draw(t, label+"_neg") {
		return -n
	}
	return n
}

func genDTime(t *rapid.T, label string) dtime {
	d := dtime{C: genCivil(t, label), NS: genNSOfDay(t, label)}
	if vgen.Pick(t, 4, label+"_z") == 0 {
		d.Off = rapid.SampledFrom([]int{60, -60, 330, -570, 840, -720, 1, -1, 1439, -1439}).Draw(t, label+"_off")
	}
	return d
}

func genDTCase(t *rapid.T) DTCase {
	c := DTCase{Op: dtOps[vgen.Pick(t, len(dtOps), "op")], A: genDTime(t, "a")}
	switch c.Op {
	case "add_time", "sub_time", "date_add_time":
		c.T = genTimeNS(t, "t")
		c.Via = rapid.SampledFrom([]string{"generic", "overload"}).Draw(t, "via")
	case "add_days", "sub_days":
		c.N = genDays(t, c.A.C, "n")
		if c.Op == "sub_days" {
			c.N = clamp32(-c.N)
		}
		c.Via = rapid.SampledFrom([]string{"generic", "overload"}).Draw(t, "via")
	case "add_dts", "sub_dts", "date_sub_dts":
		c.N = rapid.Int64Range(-800, 800).Draw(t, "n")
		if vgen.Pick(t, 3, "nbig") == 0 {
			c.N = genDays(t, c.A.C, "nb")
		}
		c.T = rapid.Int64Range(0, nsDay-1).Draw(t, "t")
		if c.N < 0 {
			c.T = -c.T
		}
		c.Via = rapid.SampledFrom([]string{"generic", "overload"}).Draw(t, "via")
	case "roundtrip":
		switch vgen.Pick(t, 3, "bc") {
		case 0:
			z := c.A.C.z() + rapid.Int64Range(-70, 70).Draw(t, "near")
			if !inRangeZ(z) {
				z = c.A.C.z()
			}
			c.B = dtime{C: fromZ(z), NS: genNSOfDay(t, "bns"), Off: c.A.Off}
		default:
			c.B = genDTime(t, "b")
			c.B.Off = c.A.Off
		}
		c.Via = rapid.SampledFrom([]string{"-@4", "diff", "diff@1"}).Draw(t, "via")
	case "roundtrip_date":
		c.B = genDTime(t, "b")
		c.B.Off = 0
		c.Via = rapid.SampledFrom([]string{"-@5", "diff", "diff@2"}).Draw(t, "via")
	case "to_date":
		c.N = genDays(t, c.A.C, "n")
		c.T = genTimeNS(t, "t")
	}
	return c
}

func timeSpanVal(ns int64) (value.Value, error) { return intSpan(ns, "nanoseconds") }

func dtSpanVal(days, ns int64) (value.Value, error) {
	// DateTime::Span(days: d, nanoseconds: ns) through the native constructor
	v, e := call(dummyDTSpan, "#init", si(0), si(0), si(days), si(0), si(0), si(0), si(0), si(0), si(ns))
	if !e.IsUndefined() {
		return value.Undefined, fmt.Errorf("DateTime::Span(days: %d, nanoseconds: %d) raised %s", days, ns, errText(e))
	}
	return v, nil
}

// wallInstant: the model works on the wall-clock reading; a fixed-offset zone
// shifts wall clock and instant alike, so arithmetic on the reading is exact.
func (d dtime) inst() instant { return instant{d.C.z(), d.NS} }

func fromInst(i instant, off int) dtime { return dtime{fromZ(i.Z), i.NS, off} }

// dtClampCorner: b - a normalises to whole months plus a negative time part
// (day difference -1 absorbed) while a's day does not exist in b's month, so
// the month-end clamp of a whole-month span fires in a + (b - a).
func dtClampCorner(a, b dtime) bool {
	return b.C.D == a.C.D-1 && a.C.D > daysInMonth(b.C.Y, b.C.M) && b.NS > a.NS
}

func dtOracle(c DTCase, ctx *pbt.Ctx) error {
	ctx.Label("op:" + c.Op)
	what := c.String()
	nt := func(a, b civil) {
		if interesting(a, b) {
			ctx.NonTrivial(what)
		}
	}
	switch c.Op {
	case "date_add_time", "date_sub_dts":
		// Date +/- time-carrying spans give a DateTime in the local zone (UTC here)
		a, err := mkDate(c.A.C)
		if err != nil {
			return err
		}
		var res, e value.Value
		var want instant
		if c.Op == "date_add_time" {
			sp, err := timeSpanVal(c.T)
			if err != nil {
				return err
			}
			res, e = call(a, "+@2", sp)
			want = instant{c.A.C.z(), 0}.addNS(c.T)
		} else {
			sp, err := dtSpanVal(c.N, c.T)
			if err != nil {
				return err
			}
			res, e = call(a, "+@1", sp)
			want = instant{c.A.C.z() + c.N, 0}.addNS(c.T)
		}
		if !e.IsUndefined() {
			return fmt.Errorf("%s raised %s", what, errText(e))
		}
		if err := checkDateTime(what, res, fromInst(want, 0)); err != nil {
			return err
		}
		nt(c.A.C, fromZ(want.Z))
		return nil
	case "roundtrip_date":
		// d + (dt - d) == dt for a Date d and a DateTime dt (local zone = UTC)
		a, err := mkDate(c.A.C)
		if err != nil {
			return err
		}
		b, err := mkDateTime(c.B)
		if err != nil {
			return err
		}
		span, e := call(b, c.Via, a)
		if !e.IsUndefined() {
			return fmt.Errorf("%s: dt %s d raised %s", what, c.Via, errText(e))
		}
		if _, ok := span.SafeAsReference().(*value.DateTimeSpan); !ok {
			return fmt.Errorf("%s: dt %s d = %s (%s), want a DateTime::Span", what, c.Via, insp(span), span.Class().Name)
		}
		if dtClampCorner(dtime{C: c.A.C}, c.B) && pbt.KnownActive("datetime-diff-add-month-end-clamp") {
			ctx.Excluded("datetime-diff-add-month-end-clamp")
			return nil
		}
		res, e := call(a, "+@1", span)
		if !e.IsUndefined() {
			return fmt.Errorf("%s: d + (dt - d) raised %s; dt - d = %s", what, errText(e), insp(span))
		}
		if err := checkDateTime(fmt.Sprintf("%s: d + (dt - d) with dt - d = %s", what, insp(span)), res, c.B); err != nil {
			return err
		}
		nt(c.A.C, c.B.C)
		return nil
	case "date_parts":
		a, err := mkDateTime(c.A)
		if err != nil {
			return err
		}
		if err := checkDateTime("DateTime(...)", a, c.A); err != nil {
			return err
		}
		d, e := call(a, "date")
		if !e.IsUndefined() {
			return fmt.Errorf("%s: date raised %s", what, errText(e))
		}
		if err := checkDate(what+": date", d, c.A.C); err != nil {
			return err
		}
		nt(c.A.C, c.A.C)
		return nil
	}
	a, err := mkDateTime(c.A)
	if err != nil {
		return err
	}
	switch c.Op {
	case "add_time", "sub_time":
		sp, err := timeSpanVal(c.T)
		if err != nil {
			return err
		}
		op, t := "+", c.T
		if c.Op == "sub_time" {
			op = "-"
			if c.T == -1<<63 {
				return nil
			}
			t = -c.T
		}
		if c.Via == "overload" {
			op += "@2"
		}
		res, e := call(a, op, sp)
		if !e.IsUndefined() {
			return fmt.Errorf("%s raised %s", what, errText(e))
		}
		want := c.A.inst().addNS(t)
		if err := checkDateTime(what, res, fromInst(want, c.A.Off)); err != nil {
			return err
		}
		nt(c.A.C, fromZ(want.Z))
	case "add_days", "sub_days":
		sp, err := intSpan(c.N, "days")
		if err != nil {
			return err
		}
		op, n := "+", c.N
		if c.Op == "sub_days" {
			op, n = "-", -c.N
		}
		if c.Via == "overload" {
			op += "@3"
		}
		res, e := call(a, op, sp)
		if !e.IsUndefined() {
			return fmt.Errorf("%s raised %s", what, errText(e))
		}
		want := instant{c.A.C.z() + n, c.A.NS}
		if err := checkDateTime(what, res, fromInst(want, c.A.Off)); err != nil {
			return err
		}
		nt(c.A.C, fromZ(want.Z))
	case "add_dts", "sub_dts":
		sp, err := dtSpanVal(c.N, c.T)
		if err != nil {
			return err
		}
		op, n, t := "+", c.N, c.T
		if c.Op == "sub_dts" {
			op, n, t = "-", -c.N, -c.T
		}
		if c.Via == "overload" {
			op += "@1"
		}
		res, e := call(a, op, sp)
		if !e.IsUndefined() {
			return fmt.Errorf("%s raised %s", what, errText(e))
		}
		want := instant{c.A.C.z() + n, c.A.NS}.addNS(t)
		if err := checkDateTime(what, res, fromInst(want, c.A.Off)); err != nil {
			return err
		}
		nt(c.A.C, fromZ(want.Z))
	case "roundtrip":
		b, err := mkDateTime(c.B)
		if err != nil {
			return err
		}
		span, e := call(b, c.Via, a)
		if !e.IsUndefined() {
			return fmt.Errorf("%s: b %s a raised %s", what, c.Via, errText(e))
		}
		if _, ok := span.SafeAsReference().(*value.DateTimeSpan); !ok {
			return fmt.Errorf("%s: b %s a = %s (%s), want a DateTime::Span", what, c.Via, insp(span), span.Class().Name)
		}
		if dtClampCorner(c.A, c.B) && pbt.KnownActive("datetime-diff-add-month-end-clamp") {
			ctx.Excluded("datetime-diff-add-month-end-clamp")
			return nil
		}
		res, e := call(a, "+", span)
		if !e.IsUndefined() {
			return fmt.Errorf("%s: a + (b - a) raised %s; b - a = %s", what, errText(e), insp(span))
		}
		if err := checkDateTime(fmt.Sprintf("%s: a + (b - a) with b - a = %s", what, insp(span)), res, c.B); err != nil {
			return err
		}
		nt(c.A.C, c.B.C)
	case "to_date":
		// (a + n.days + t).date: DateTime itself has no documented year range, Date has
		sp, err := dtSpanVal(c.N, 0)
		if err != nil {
			return err
		}
		r1, e := call(a, "+@1", sp)
		if !e.IsUndefined() {
			return fmt.Errorf("%s: a + n.days raised %s", what, errText(e))
		}
		ts, err := timeSpanVal(c.T)
		if err != nil {
			return err
		}
		r2, e := call(r1, "+@2", ts)
		if !e.IsUndefined() {
			return fmt.Errorf("%s: + t raised %s", what, errText(e))
		}
		want := instant{c.A.C.z() + c.N, c.A.NS}.addNS(c.T)
		d, e := call(r2, "date")
		if !inRangeZ(want.Z) {
			ctx.Label("out-of-range")
			if err := mustRaise(what+": .date", d, e); err != nil {
				return err
			}
			ctx.NonTrivial(what)
			return nil
		}
		if !e.IsUndefined() {
			return fmt.Errorf("%s: date raised %s", what, errText(e))
		}
		if err := checkDate(what+": date", d, fromZ(want.Z)); err != nil {
			return err
		}
		nt(c.A.C, fromZ(want.Z))
	default:
		return fmt.Errorf("unknown op %q", c.Op)
	}
	return nil
}

func TestDateTimeArith(t *testing.T) {
	pbt.Rule("datetime_arith", "DateTimes = generated Date x nanosecond of day (midnight, last ns, whole seconds, random) in UTC or a fixed-offset zone; dt +/- Time::Span (ns counts up to +-2^63, day multiples +-1 ns), dt +/- n.days, dt +/- DateTime::Span(days, ns), Date + Time::Span / DateTime::Span, through the generic and the typed overload natives; b - a then a + (b - a) == b; (dt + span).date with a result outside the Date year range must raise; oracle = (days-from-civil, ns-of-day) model with floor carries; non-trivial as for date_arith")
	pbt.Run(t, pbt.Prop[DTCase]{Name: "datetime_arith", Quick: 100000, Thorough: 3000000, Gen: genDTCase, Oracle: dtOracle,
		Sample: func(c DTCase) any { return c.String() }})
}
