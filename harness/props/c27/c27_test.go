// Package c27: REPL sessions behave like batch runs of their accepted inputs.
package c27

import (
	"fmt"
	"os"
	"regexp"
	"strings"
	"testing"
	"time"

	"pgregory.net/rapid"

	"verif/internal/pbt"
	sb "verif/internal/sandbox"
)

func TestMain(m *testing.M) { pbt.Main(m, "C27") }

var worker *sb.Worker

// known finding: call sites cache the callee per receiver class and the cache is
// never invalidated, so a method body that already ran keeps calling the old
// version of a method that a later REPL input redefines
const kStale = "stale-callee-after-redefinition"

// known finding: `using M::name` (one constant / method) is accepted but the next
// input no longer sees the name; `using M::*` persists, and so does either form
// inside a batch program
const kUsing = "using-one-name-forgotten"

// known finding (batch side, seen through the differential): defining an alias
// marks the aliased method as compiled; when the alias sorts before the method
// (`alias a2 m2`) the method itself is never defined at run time, a dynamic call
// of it crashes the VM.  The repo's own test TestBytecodeAlias/define_three_aliases
// pins the faulty bytecode, so it is recorded instead of fixed.
const kAlias = "alias-sorted-before-method-undefined"

var addrRe = regexp.MustCompile(`0x[0-9a-f]+`)

var locRe = regexp.MustCompile(`location: [^,}]*`)

// norm removes what legitimately differs between a REPL input and a batch
// program: object addresses and source locations (closures print theirs).
func norm(s string) string {
	return locRe.ReplaceAllString(addrRe.ReplaceAllString(s, "0xADDR"), "location: LOC")
}

func clip(s string, n int) string {
	if len(s) > n {
		return s[:n] + "…"
	}
	return s
}

func fails(r sb.Run) string {
	var ds []string
	for _, d := range r.Diags {
		if d.Severity == "FAIL" {
			ds = append(ds, d.Msg)
		}
	}
	return clip(strings.Join(ds, " | "), 600)
}

func session(c Case, upto int) string {
	var b strings.Builder
	for i, in := range c.Inputs {
		if i > upto {
			break
		}
		fmt.Fprintf(&b, "[%d] %s\n", i, strings.ReplaceAll(in.Src, "\n", "\n    "))
	}
	return b.String()
}

// oracle: drive the whole session through the incremental checker + persistent
// VM (worker mode "repl" = repl.evaluate), then for every input i compare with a
// batch run (fresh checker + VM) of
//
//	P_i = accepted, non-throwing earlier inputs (see Input.Kind) ++ input i
//
// verdict(REPL, i) == verdict(batch, P_i); if accepted: stdout(batch) ==
// stdout of the kept observers ++ stdout(REPL, i), and the result value / the
// uncaught error of input i are the same.  A rejected input must therefore leave
// no trace: any later input that could see a leftover (a probe of the names it
// tried to define, an assignment that depends on a declared type) gets a
// different verdict or output than in the batch program, which never contained
// the rejected input.
func oracleOnce(c Case, ctx *pbt.Ctx) error {
	var inputs []string
	for _, in := range c.Inputs {
		inputs = append(inputs, in.Src)
	}
	res := worker.Do(sb.Req{Mode: "repl", Inputs: inputs}, 120*time.Second)
	if res.TimedOut {
		pbt.Inconclusive()
		ctx.Label("session:timeout")
		return nil
	}
	if res.Died {
		return fmt.Errorf("REPL session killed the interpreter process: %s\n%s\nsession:\n%s", res.ExitMsg, clip(crashHead(res.Stderr), 1500), session(c, len(c.Inputs)))
	}
	if res.Resp.Err != "" {
		return fmt.Errorf("worker error: %s", res.Resp.Err)
	}
	runs := res.Resp.Runs

	type kept struct {
		idx    int
		obs    bool
		stdout string
	}
	var keep []kept
	defined := map[string]bool{}
	var seenPartialReject, nontrivial, sawRedef bool
	for i, in := range c.Inputs {
		if i >= len(runs) {
			return fmt.Errorf("REPL session stopped after %d of %d inputs\nsession:\n%s", len(runs), len(c.Inputs), session(c, i))
		}
		r := runs[i]
		// an input that redefines something already defined: the observers that ran
		// under the old definition cannot be part of its batch program
		redef := false
		if in.Kind != "obs" {
			for _, d := range in.Defines {
				if defined[d] {
					redef = true
				}
			}
		}
		var parts []string
		want := ""
		for _, k := range keep {
			if redef && k.obs {
				continue
			}
			parts = append(parts, c.Inputs[k.idx].Src)
			want += k.stdout
		}
		parts = append(parts, in.Src)
		prog := strings.Join(parts, "\n")
		bres := worker.Do(sb.Req{Mode: "run", Source: prog}, 60*time.Second)
		if bres.TimedOut {
			pbt.Inconclusive()
			ctx.Label("batch:timeout")
			return nil
		}
		where := func() string {
			return fmt.Sprintf("input %d (%s/%s)\nsession:\n%s--- batch program:\n%s\n", i, in.Kind, in.Shape, session(c, i), prog)
		}
		if bres.Died || len(bres.Resp.Runs) != 1 {
			if r.Panic != "" {
				ctx.Label("crash:both")
				return nil // the batch run crashes as well: C01's business
			}
			return fmt.Errorf("batch run killed the interpreter process (%s) while the REPL survived: %s\n%s", bres.ExitMsg, clip(crashHead(bres.Stderr), 1200), where())
		}
		b := bres.Resp.Runs[0]
		if r.Panic != "" {
			if b.Panic != "" {
				ctx.Label("crash:both")
				return nil
			}
			return fmt.Errorf("REPL input crashed the interpreter (Go panic), the batch run of the same inputs does not: %s\n%s", clip(r.Panic, 1500), where())
		}
		if b.Panic != "" {
			return fmt.Errorf("batch run crashed (Go panic) on inputs the REPL handled: %s\n%s", clip(b.Panic, 1500), where())
		}
		verdict := "rej"
		if r.Accepted {
			verdict = "acc"
		}
		ctx.Label("in:" + in.Shape + ":" + verdict)
		if in.Bad && r.Accepted && b.Accepted {
			ctx.Label("gen:bad-input-accepted-by-both")
		}
		if r.Accepted != b.Accepted {
			if r.Accepted {
				return fmt.Errorf("verdict differs: REPL ACCEPTED input %d, the batch program is REJECTED (%s)\n%s", i, fails(b), where())
			}
			return fmt.Errorf("verdict differs: REPL REJECTED input %d (%s), the batch program is accepted\n%s", i, fails(r), where())
		}
		if !r.Accepted {
			if in.Partial {
				seenPartialReject = true
			}
			continue
		}
		if seenPartialReject {
			nontrivial = true
		}
		if b.Stdout != want+r.Stdout {
			return fmt.Errorf("stdout differs at input %d: REPL printed %q; batch printed %q, expected %q (kept observers) + the REPL's output\n%s", i, r.Stdout, b.Stdout, want, where())
		}
		if norm(r.ErrInspect) != norm(b.ErrInspect) {
			return fmt.Errorf("uncaught error differs at input %d: REPL %q, batch %q\n%s", i, r.ErrInspect, b.ErrInspect, where())
		}
		if r.ErrInspect != "" {
			ctx.Label("threw")
			continue
		}
		// a batch program that ends in a definition evaluates to the value of the
		// statement before it, the REPL input to nil: results are only comparable when
		// the input ends in an expression
		if in.Kind != "def" && norm(r.Result) != norm(b.Result) {
			return fmt.Errorf("result differs at input %d: REPL => %s, batch => %s\n%s", i, r.Result, b.Result, where())
		}
		// the input takes part in later batch programs
		if in.Kind != "obs" {
			for _, d := range in.Defines {
				defined[d] = true
			}
			if redef {
				sawRedef = true
				var nk []kept
				for _, k := range keep {
					if !k.obs {
						nk = append(nk, k)
					}
				}
				keep = nk
			}
		}
		keep = append(keep, kept{i, in.Kind == "obs", r.Stdout})
	}
	if c.Avoided > 0 {
		ctx.Excluded(kStale)
	}
	if c.AvoidedUsing > 0 {
		ctx.Excluded(kUsing)
	}
	if c.AvoidedAlias > 0 {
		ctx.Excluded(kAlias)
	}
	if sawRedef {
		ctx.Label("session:valid-redefinition")
	}
	if seenPartialReject {
		ctx.Label("session:partial-reject")
	}
	if nontrivial {
		ctx.NonTrivial(strings.Join(inputs, "\x00"))
	}
	return nil
}

// oracle confirms a failure by running the comparison a second time: the property
// is about deterministic behaviour, a mismatch that does not reproduce on the same
// inputs (checker goroutines, machine load) is counted as inconclusive and logged,
// not reported as a violation of C27.
func oracle(c Case, ctx *pbt.Ctx) error {
	err := oracleOnce(c, ctx)
	if err == nil {
		return nil
	}
	if err2 := oracleOnce(c, &pbt.Ctx{}); err2 != nil {
		return err2
	}
	pbt.Inconclusive()
	ctx.Label("unconfirmed:" + failClass(err))
	if f, e := os.OpenFile(os.TempDir()+"/c27-unconfirmed.log", os.O_APPEND|os.O_CREATE|os.O_WRONLY, 0o644); e == nil {
		fmt.Fprintf(f, "---- not reproduced on the second run ----\n%s\n", err.Error())
		f.Close()
	}
	return nil
}

func crashHead(s string) string {
	for _, k := range []string{"fatal error:", "panic:", "SIGSEGV", "unexpected signal"} {
		if i := strings.Index(s, k); i >= 0 {
			return s[i:]
		}
	}
	if len(s) > 2000 {
		return s[len(s)-2000:]
	}
	return s
}

func failClass(err error) string {
	if err == nil {
		return ""
	}
	m := err.Error()
	for _, k := range []string{"killed the interpreter", "crashed", "REPL ACCEPTED", "REPL REJECTED", "stdout differs", "uncaught error differs", "result differs", "stopped after"} {
		if strings.Contains(m, k) {
			return k
		}
	}
	return "other"
}

// minimize: greedy deletion of inputs (then of lines inside multi-line inputs is
// left to the reader), keeping the same kind of failure.
func minimize(c Case) Case {
	want := failClass(oracle(c, &pbt.Ctx{}))
	if want == "" {
		return c
	}
	calls := 0
	for changed := true; changed && calls < 80; {
		changed = false
		for i := len(c.Inputs) - 1; i >= 0 && calls < 80; i-- {
			if len(c.Inputs) <= 1 {
				break
			}
			var d Case
			d.Inputs = append(d.Inputs, c.Inputs[:i]...)
			d.Inputs = append(d.Inputs, c.Inputs[i+1:]...)
			calls++
			if failClass(oracle(d, &pbt.Ctx{})) == want {
				c = d
				changed = true
			}
		}
	}
	return c
}

func TestSessions(t *testing.T) {
	pbt.Rule("sessions", "sessions of 3-15 REPL inputs over a small shared pool of names (locals a-d, methods f g s1 s2 bang, classes Foo Bar with methods m1-m4, constants K1 K2, modules M N): valid definitions and redefinitions, definitions built to be rejected late (class/module whose last method is ill-typed, ill-typed method body, valid definitions followed by a failing statement, local declaration followed by an ill-typed assignment, invalid override, uninitialised attribute, retyping a local, redeclared constant, parse errors), state-changing inputs over never-redefined names, printing/evaluating inputs, probes of the names a rejected input tried to introduce, inputs that throw as their first effect; every input is compared (verdict, stdout, result or uncaught error) with a batch run of the accepted non-throwing earlier inputs plus that input; non-trivial = an input is accepted after a rejected definition that was partially valid; distinct by session text")
	flavour := "debug"
	if f, ok := os.LookupEnv("C27_WORKER"); ok {
		flavour = f // developer aid
	}
	worker = sb.New(flavour)
	defer worker.Close()
	pbt.Run(t, pbt.Prop[Case]{Name: "sessions", Quick: 1000, Thorough: 6000, Gen: func(t *rapid.T) Case {
		return genCase(t, pbt.KnownActive(kStale), pbt.KnownActive(kUsing), pbt.KnownActive(kAlias))
	}, Oracle: oracle, Minimize: minimize,
		Sample: func(c Case) any {
			var s []string
			for _, in := range c.Inputs {
				s = append(s, in.Shape+": "+in.Src)
			}
			return s
		}})
}

// developer aid: C27_DUMP=n prints n generated sessions without running them
func TestDump(t *testing.T) {
	if os.Getenv("C27_DUMP") == "" {
		t.Skip()
	}
	rapid.Check(t, func(rt *rapid.T) {
		c := genCase(rt, os.Getenv("C27_AVOID") != "", os.Getenv("C27_AVOID") != "", os.Getenv("C27_AVOID") != "")
		fmt.Println("=====")
		for i, in := range c.Inputs {
			fmt.Printf("--- [%d] %s/%s bad=%v partial=%v throws=%v probe=%v intro=%v defines=%v\n%s\n", i, in.Kind, in.Shape, in.Bad, in.Partial, in.Throws, in.Probe, in.Intro, in.Defines, in.Src)
		}
	})
}
