package c27

import (
	"fmt"
	"regexp"
	"sort"
	"strings"

	"pgregory.net/rapid"
)

// Input is one line typed into the REPL.
//
// Kind decides how the input takes part in the batch programs of later inputs
// (only if the REPL accepted it and it did not throw):
//
//	def – definitions only (methods, classes, modules, constants): always kept
//	mut – changes the state of locals / objects, using only names that are never
//	      validly redefined in a session ("stable" names): always kept
//	obs – prints / evaluates, changes nothing: kept until a later input validly
//	      redefines something (batch programs hoist definitions, so an observer
//	      that ran under the old definition is not reproducible afterwards)
type Input struct {
	Kind    string   `json:"kind"`
	Shape   string   `json:"shape"`
	Src     string   `json:"src"`
	Defines []string `json:"defines,omitempty"` // redefinable members this input (re)defines when accepted
	Intro   []string `json:"intro,omitempty"`   // names it tries to introduce that the generator's model does not know yet
	Bad     bool     `json:"bad,omitempty"`     // built to be rejected by the checker
	Partial bool     `json:"partial,omitempty"` // bad, and the error comes after valid definitions of the same input
	Throws  bool     `json:"throws,omitempty"`  // built to throw at run time as its first effect
	Probe   bool     `json:"probe,omitempty"`   // aimed at the names of the preceding bad input
}

type Case struct {
	Inputs []Input `json:"inputs"`
	// number of times the generator steered away from the shape of known finding kStale
	Avoided      int `json:"avoided,omitempty"`
	AvoidedUsing int `json:"avoided_using,omitempty"`
	AvoidedAlias int `json:"avoided_alias,omitempty"`
}

// ---------------------------------------------------------------- model ----

type nsM struct {
	methods map[string]bool
	super   string
}

// model is what the generator believes is defined (it assumes valid inputs are
// accepted and bad ones rejected).  It only steers generation; the oracle never
// looks at it.
type model struct {
	locals  map[string]string // name -> Int | String | Foo | Bar
	meths   map[string]bool   // f g s1 s2 bang
	classes map[string]*nsM
	consts  map[string]bool
	mods    map[string]*nsM
	mixin   bool            // mixin Mx (method mx) is defined
	frozen  map[string]bool // Class#method that has an alias: never redefined afterwards
	using   map[string]bool // modules brought in with `using X::*`
	called  map[string]bool // methods called from accepted method bodies: f s1 s2, #m1..#m4 (self calls inside classes)
}

func newModel() *model {
	return &model{locals: map[string]string{}, meths: map[string]bool{}, classes: map[string]*nsM{}, consts: map[string]bool{}, mods: map[string]*nsM{}, called: map[string]bool{}, using: map[string]bool{}, frozen: map[string]bool{}}
}

var callRe = regexp.MustCompile(`(def )?\b(f|s1|s2|m1|m2|m3|m4)\(`)

// noteCalls records which methods the bodies of an accepted definition call.
func (m *model) noteCalls(src string) {
	for _, mm := range callRe.FindAllStringSubmatch(src, -1) {
		if mm[1] != "" {
			continue // the definition itself
		}
		n := mm[2]
		if n[0] == 'm' {
			n = "#" + n
		}
		m.called[n] = true
	}
}

var (
	localPool  = []string{"a", "b", "c", "d"}
	redefMeths = []string{"f", "g"}
	stabMeths  = []string{"s1", "s2"}
	classPool  = []string{"Foo", "Bar"}
	cmethPool  = []string{"m1", "m2", "m3", "m4"}
	constPool  = []string{"K1", "K2"}
	modPool    = []string{"M", "N"}
	mmethPool  = []string{"mm", "nn"}
)

type g struct {
	t *rapid.T
	m *model
	n int
	// known finding kStale: do not validly (re)define a method of an existing
	// class / an existing top-level method that an accepted method body calls
	avoidStale bool
	avoided    int
	// known finding kUsing: `using M::name` is forgotten by the next REPL input
	avoidUsing   bool
	avoidedUsing int
	queued       []Input // inputs that must follow the current one
	// known finding kAlias: an alias whose name sorts before the aliased method
	// leaves that method undefined at run time
	avoidAlias   bool
	avoidedAlias int
}

func (g *g) lab(s string) string { g.n++; return fmt.Sprintf("%s%d", s, g.n) }

// pick is uniform (coin flips), shrinks towards 0.
func (g *g) pick(n int, label string) int {
	if n <= 1 {
		return 0
	}
	for {
		v := 0
		for i := 0; (1 << i) < n; i++ {
			if rapid.Bool().Draw(g.t, g.lab(label)) {
				v |= 1 << i
			}
		}
		if v < n {
			return v
		}
	}
}

func (g *g) chance(pct int, label string) bool {
	return rapid.IntRange(0, 99).Draw(g.t, g.lab(label)) >= 100-pct
}

func (g *g) weighted(label string, w ...int) int {
	tot := 0
	for _, x := range w {
		tot += x
	}
	if tot == 0 {
		return 0
	}
	// uniform in [0,tot): draw through pick to avoid rapid's small-value bias
	r := g.pick(tot, label)
	for i, x := range w {
		if r < x {
			return i
		}
		r -= x
	}
	return len(w) - 1
}

func (g *g) oneOf(label string, xs []string) string { return xs[g.pick(len(xs), label)] }

func sortedKeys[V any](m map[string]V) []string {
	var ks []string
	for k := range m {
		ks = append(ks, k)
	}
	sort.Strings(ks)
	return ks
}

func (g *g) lit() string {
	return fmt.Sprint(rapid.IntRange(0, 9).Draw(g.t, g.lab("lit")))
}

// localsOf returns the model's locals of a type.
func (g *g) localsOf(typ string) []string {
	var out []string
	for _, k := range sortedKeys(g.m.locals) {
		if g.m.locals[k] == typ {
			out = append(out, k)
		}
	}
	return out
}

func (g *g) objLocals() []string {
	var out []string
	for _, k := range sortedKeys(g.m.locals) {
		if t := g.m.locals[k]; t == "Foo" || t == "Bar" {
			out = append(out, k)
		}
	}
	return out
}

// ----------------------------------------------------------- expressions ----

// intExpr builds an Int expression for top-level code.  stable = only names that
// are never validly redefined (usable in state-changing inputs).
func (g *g) intExpr(depth int, stable bool) string {
	var alts []func() string
	alts = append(alts, g.lit, g.lit)
	for _, l := range g.localsOf("Int") {
		l := l
		alts = append(alts, func() string { return l }, func() string { return l })
	}
	for _, k := range sortedKeys(g.m.consts) {
		k := k
		alts = append(alts, func() string { return k })
	}
	for _, mo := range sortedKeys(g.m.mods) {
		mo := mo
		alts = append(alts, func() string { return mo + "::C" })
	}
	for _, o := range g.objLocals() {
		o := o
		alts = append(alts, func() string { return o + ".v" })
	}
	if depth > 0 {
		for _, fn := range g.localsOf("Fn") {
			fn := fn
			alts = append(alts, func() string { return fn + ".(" + g.intExpr(depth-1, stable) + ")" })
		}
	}
	if len(g.m.using) == 1 {
		alts = append(alts, func() string { return "C" }, func() string { return "C" })
		if depth > 0 && !stable {
			for _, me := range sortedKeys(g.m.mods[sortedKeys(g.m.using)[0]].methods) {
				me := me
				alts = append(alts, func() string { return me + "(" + g.intExpr(depth-1, false) + ")" })
			}
		}
	}
	if depth > 0 {
		alts = append(alts, func() string {
			op := g.oneOf("op", []string{"+", "-", "*"})
			return "(" + g.intExpr(depth-1, stable) + " " + op + " " + g.intExpr(depth-1, stable) + ")"
		})
		for _, s := range stabMeths {
			if g.m.meths[s] {
				s := s
				alts = append(alts, func() string { return s + "(" + g.intExpr(depth-1, stable) + ")" })
			}
		}
		if !stable {
			for _, f := range redefMeths {
				if g.m.meths[f] {
					f := f
					alts = append(alts, func() string { return f + "(" + g.intExpr(depth-1, false) + ")" }, func() string { return f + "(" + g.intExpr(depth-1, false) + ")" })
				}
			}
			for _, c := range sortedKeys(g.m.classes) {
				for _, me := range sortedKeys(g.m.classes[c].methods) {
					c, me := c, me
					alts = append(alts, func() string {
						return c + "(" + g.intExpr(depth-1, false) + ")." + me + "(" + g.intExpr(depth-1, false) + ")"
					})
				}
				if sup := g.m.classes[c].super; sup != "" && g.m.classes[sup] != nil {
					for _, me := range sortedKeys(g.m.classes[sup].methods) {
						c, me := c, me
						alts = append(alts, func() string { return c + "(" + g.lit() + ")." + me + "(" + g.intExpr(depth-1, false) + ")" })
					}
				}
			}
			for _, o := range g.objLocals() {
				cl := g.m.classes[g.m.locals[o]]
				if cl == nil {
					continue
				}
				for _, me := range sortedKeys(cl.methods) {
					o, me := o, me
					alts = append(alts, func() string { return o + "." + me + "(" + g.intExpr(depth-1, false) + ")" }, func() string { return o + "." + me + "(" + g.intExpr(depth-1, false) + ")" })
				}
			}
			for _, mo := range sortedKeys(g.m.mods) {
				for _, me := range sortedKeys(g.m.mods[mo].methods) {
					mo, me := mo, me
					alts = append(alts, func() string { return mo + "." + me + "(" + g.intExpr(depth-1, false) + ")" })
				}
			}
		}
	}
	return alts[g.pick(len(alts), "ie")]()
}

func (g *g) strExpr(stable bool) string {
	var alts []func() string
	alts = append(alts, func() string { return `"s` + g.lit() + `"` })
	for _, l := range g.localsOf("String") {
		l := l
		alts = append(alts, func() string { return l }, func() string { return l + ` + "` + g.lit() + `"` })
	}
	alts = append(alts, func() string { return `"i${` + g.intExpr(1, stable) + `}"` })
	return alts[g.pick(len(alts), "se")]()
}

// valueOf returns a stable expression of the given local type.
func (g *g) valueOf(typ string) string {
	switch typ {
	case "Int":
		return g.intExpr(1, true)
	case "String":
		return g.strExpr(true)
	default:
		return typ + "(" + g.intExpr(1, true) + ")"
	}
}

// body builds an Int method body.  ctx: "top" (top-level method name given),
// class name or module name.  avail = sibling methods that may be called.
func (g *g) body(depth int, ctx string, inClass bool, avail []string, self string) string {
	var alts []func() string
	alts = append(alts, func() string { return "n" }, func() string { return "n" }, g.lit)
	if inClass {
		alts = append(alts, func() string { return "@v" }, func() string { return "@v" })
	}
	for _, k := range sortedKeys(g.m.consts) {
		k := k
		alts = append(alts, func() string { return k })
	}
	if depth > 0 {
		alts = append(alts, func() string {
			op := g.oneOf("bop", []string{"+", "-", "*"})
			return "(" + g.body(depth-1, ctx, inClass, avail, self) + " " + op + " " + g.body(depth-1, ctx, inClass, avail, self) + ")"
		}, func() string {
			op := g.oneOf("bop", []string{"+", "-", "*"})
			return "(" + g.body(depth-1, ctx, inClass, avail, self) + " " + op + " " + g.body(depth-1, ctx, inClass, avail, self) + ")"
		})
		for _, a := range avail {
			a := a
			alts = append(alts, func() string { return a + "(" + g.body(depth-1, ctx, inClass, avail, self) + ")" })
		}
		// top-level methods are visible everywhere; g may call f, everything may call s1/s2
		for _, s := range stabMeths {
			if g.m.meths[s] && self != "s1" && self != "s2" {
				s := s
				alts = append(alts, func() string { return s + "(" + g.body(depth-1, ctx, inClass, avail, self) + ")" })
			}
		}
		if g.m.meths["f"] && self != "f" && self != "s1" && self != "s2" {
			alts = append(alts, func() string { return "f(" + g.body(depth-1, ctx, inClass, avail, self) + ")" })
		}
	}
	return alts[g.pick(len(alts), "body")]()
}

// badBody returns a method body with a type error.
func (g *g) badBody(inClass bool) string {
	alts := []string{`"s"`, `n + "s"`, `nope(n)`, `n.nope`, `Nope`, `K9 + n`, `n + q`}
	if inClass {
		alts = append(alts, `@w`, `@v.nope`)
	}
	return g.oneOf("bad", alts)
}

func methodLine(indent, name, body string) string {
	return indent + "def " + name + "(n: Int): Int then " + body
}

// ------------------------------------------------------ definition inputs ----

func (g *g) defTopMethod(name string, bad bool) Input {
	body := g.body(2, "top", false, nil, name)
	in := Input{Kind: "def", Shape: "method"}
	if bad {
		body = g.badBody(false)
		in.Shape, in.Bad = "bad-method-body", true
	}
	in.Src = methodLine("", name, body)
	if name == "bang" {
		in.Src = "def bang(n: Int): Int\n  throw unchecked :bang\nend"
		in.Shape = "method-bang"
	}
	if !g.m.meths[name] {
		in.Intro = []string{name}
	}
	if name == "f" || name == "g" {
		in.Defines = []string{name}
	}
	if !bad {
		g.m.meths[name] = true
		g.m.noteCalls(in.Src)
	}
	return in
}

// classSrc renders a class (first definition or reopening) with the given
// method lines.
func (g *g) classHeader(name string) (string, bool) {
	cl := g.m.classes[name]
	if cl != nil {
		if cl.super != "" {
			return "class " + name + " < " + cl.super, false
		}
		return "class " + name, false
	}
	// new class: Bar may inherit from Foo (and the other way round) if that exists
	other := "Foo"
	if name == "Foo" {
		other = "Bar"
	}
	if oc := g.m.classes[other]; oc != nil && oc.super == "" && g.chance(50, "inherit") {
		return "class " + name + " < " + other, true
	}
	if g.m.mixin && g.chance(50, "include") {
		return "class " + name + "\n  include Mx\n  attr v: Int\n  init(@v); end", true
	}
	return "class " + name + "\n  attr v: Int\n  init(@v); end", true
}

// defMixin defines (or, bad, reopens with a failing last method) the mixin Mx.
func (g *g) defMixin(bad bool) Input {
	if bad {
		in := Input{Kind: "def", Shape: "bad-mixin-late-method", Bad: true, Partial: true,
			Src: "mixin Mx\n" + methodLine("  ", "mx", "(n + "+g.lit()+")") + "\n" + methodLine("  ", "my", g.badBody(false)) + "\nend"}
		if !g.m.mixin {
			in.Intro = []string{"Mx"}
		}
		for _, c := range sortedKeys(g.m.classes) {
			if g.m.classes[c].methods["mx"] {
				in.Intro = append(in.Intro, c+"#my")
				in.Defines = append(in.Defines, c+"#mx")
			}
		}
		return in
	}
	g.m.mixin = true
	return Input{Kind: "def", Shape: "mixin", Src: "mixin Mx\n" + methodLine("  ", "mx", "(n + "+g.lit()+")") + "\nend", Intro: []string{"Mx"}}
}

func (g *g) defClass(name string, bad bool) Input {
	cl := g.m.classes[name]
	isNew := cl == nil
	head, _ := g.classHeader(name)
	super := ""
	if strings.Contains(head, " < ") {
		super = head[strings.Index(head, " < ")+3:]
		if cl != nil {
			super = cl.super
		}
	}
	in := Input{Kind: "def", Shape: "class"}
	if !isNew {
		in.Shape = "class-reopen"
	}
	pool := cmethPool
	if !bad && !isNew {
		pool = nil
		for _, me := range cmethPool {
			if g.m.frozen[name+"#"+me] {
				continue // has an alias: which version the alias denotes after a redefinition is not pinned down
			}
			if g.avoidStale && g.m.called["#"+me] {
				g.avoided++
				continue
			}
			pool = append(pool, me)
		}
		if len(pool) == 0 {
			return g.defModule(g.oneOf("modname", modPool), false)
		}
	}
	nm := 1 + g.pick(3, "nmeth")
	if bad && nm < 2 {
		nm = 2
	}
	if nm > len(pool) {
		nm = len(pool)
	}
	// choose distinct method names, in pool order
	chosen := map[string]bool{}
	for len(chosen) < nm {
		chosen[g.oneOf("cm", pool)] = true
	}
	names := sortedKeys(chosen)
	var avail []string
	if cl != nil {
		// sibling calls only to lower-numbered methods (no recursion)
		avail = nil
	}
	var lines []string
	known := map[string]bool{}
	if cl != nil {
		for k := range cl.methods {
			known[k] = true
		}
	}
	if super != "" && g.m.classes[super] != nil {
		for k := range g.m.classes[super].methods {
			known[k] = true
		}
	}
	for i, me := range names {
		avail = avail[:0]
		for _, k := range cmethPool {
			if k < me && (known[k] || chosen[k]) {
				avail = append(avail, k)
			}
		}
		b := g.body(2, name, true, avail, "")
		if bad && i == len(names)-1 {
			b = g.badBody(true)
		}
		lines = append(lines, methodLine("  ", me, b))
		in.Defines = append(in.Defines, name+"#"+me)
	}
	in.Src = head + "\n" + strings.Join(lines, "\n") + "\nend"
	if isNew {
		in.Intro = append(in.Intro, name)
	}
	for _, me := range names {
		if !known[me] {
			in.Intro = append(in.Intro, name+"#"+me)
		}
	}
	if bad {
		in.Bad, in.Partial = true, true
		in.Shape = "bad-" + in.Shape + "-late-method"
		return in
	}
	if isNew {
		cl = &nsM{methods: map[string]bool{}, super: super}
		g.m.classes[name] = cl
		if strings.Contains(head, "include Mx") {
			cl.methods["mx"] = true
		}
	}
	for _, me := range names {
		cl.methods[me] = true
	}
	g.m.noteCalls(in.Src)
	return in
}

// defAlias reopens a class and adds an alias of one of its methods.
func (g *g) defAlias() (Input, bool) {
	for _, c := range sortedKeys(g.m.classes) {
		cl := g.m.classes[c]
		for _, me := range cmethPool {
			al := "a" + me[1:]
			if g.avoidAlias {
				al = "z" + me[1:] // sorts after the aliased method
				g.avoidedAlias++
			}
			if cl.methods[me] && !cl.methods[al] {
				head, _ := g.classHeader(c)
				cl.methods[al] = true
				g.m.frozen[c+"#"+me] = true
				return Input{Kind: "def", Shape: "class-reopen-alias", Src: head + "\n  alias " + al + " " + me + "\nend", Intro: []string{c + "#" + al}}, true
			}
		}
	}
	return Input{}, false
}

func (g *g) defModule(name string, bad bool) Input {
	mo := g.m.mods[name]
	isNew := mo == nil
	in := Input{Kind: "def", Shape: "module"}
	head := "module " + name
	if isNew {
		head += "\n  const C = " + g.lit()
		in.Intro = append(in.Intro, name)
	} else {
		in.Shape = "module-reopen"
	}
	nm := 1 + g.pick(2, "nmm")
	names := mmethPool[:nm]
	if nm == 1 && g.chance(50, "mm2") {
		names = mmethPool[1:]
	}
	var lines []string
	for i, me := range names {
		b := g.body(1, name, false, nil, "")
		if g.chance(40, "useC") {
			b = "(" + b + " + C)"
		}
		if bad && i == len(names)-1 {
			b = g.badBody(false)
		}
		lines = append(lines, methodLine("  ", me, b))
		in.Defines = append(in.Defines, name+"."+me)
		if isNew || !mo.methods[me] {
			in.Intro = append(in.Intro, name+"."+me)
		}
	}
	in.Src = head + "\n" + strings.Join(lines, "\n") + "\nend"
	if bad {
		in.Bad, in.Partial = true, true
		in.Shape = "bad-" + in.Shape + "-late-method"
		return in
	}
	if isNew {
		mo = &nsM{methods: map[string]bool{}}
		g.m.mods[name] = mo
	}
	for _, me := range names {
		mo.methods[me] = true
	}
	g.m.noteCalls(in.Src)
	return in
}

func (g *g) defConst(name string) Input {
	in := Input{Kind: "def", Shape: "const"}
	typ := ""
	if g.chance(40, "ctyp") {
		typ = ": Int"
	}
	// initialisers never mention locals: the REPL lets a constant see the session's
	// locals, a batch program (constants are hoisted) does not
	saved := g.m.locals
	g.m.locals = map[string]string{}
	in.Src = "const " + name + typ + " = " + g.intExpr(1, true)
	g.m.locals = saved
	if g.m.consts[name] {
		in.Bad, in.Shape = true, "bad-const-redeclare"
		return in
	}
	in.Intro = []string{name}
	g.m.consts[name] = true
	return in
}

// defUsing brings a module's constant and methods into scope.  single = the
// one-name forms `using M::C` / `using M::mm` (known finding kUsing).
func (g *g) defUsing(mod string, single bool) Input {
	if single {
		names := append([]string{"C"}, sortedKeys(g.m.mods[mod].methods)...)
		n := g.oneOf("uname", names)
		return Input{Kind: "def", Shape: "using-one", Src: "using " + mod + "::" + n, Intro: []string{"using:" + mod + "::" + n}}
	}
	in := Input{Kind: "def", Shape: "using-all", Src: "using " + mod + "::*"}
	if !g.m.using[mod] {
		in.Intro = []string{"using:" + mod}
	}
	g.m.using[mod] = true
	return in
}

// validDef chooses a definition the model expects to be accepted.
func (g *g) validDef() Input {
	if ms := sortedKeys(g.m.mods); len(ms) > 0 && g.chance(20, "using") {
		mod := g.oneOf("umod", ms)
		if !g.avoidUsing && g.chance(35, "using1") {
			in := g.defUsing(mod, true)
			// the follow-up input looks the name up without qualification
			n := in.Intro[0][strings.LastIndex(in.Intro[0], ":")+1:]
			src := n
			if n != "C" {
				src = n + "(" + g.lit() + ")"
			}
			g.queued = append(g.queued, Input{Kind: "obs", Shape: "using-one-lookup", Src: src})
			return in
		}
		if g.avoidUsing {
			g.avoidedUsing++
		}
		return g.defUsing(mod, false)
	}
	if !g.m.mixin && g.chance(12, "mixin") {
		return g.defMixin(false)
	}
	if len(g.m.classes) > 0 && g.chance(8, "alias") {
		if in, ok := g.defAlias(); ok {
			return in
		}
	}
	// prefer what is still missing
	w := []int{3, 3, 2, 2, 1}
	if !g.m.meths["s1"] {
		w[0] += 3
	}
	if len(g.m.classes) == 0 {
		w[1] += 3
	}
	switch g.weighted("vdef", w...) {
	case 0:
		var cands []string
		for _, s := range append(append([]string{}, stabMeths...), "bang") {
			if !g.m.meths[s] {
				cands = append(cands, s)
			}
		}
		for _, r := range redefMeths {
			if g.avoidStale && g.m.meths[r] && g.m.called[r] {
				g.avoided++
				continue
			}
			cands = append(cands, r, r)
		}
		return g.defTopMethod(g.oneOf("mname", cands), false)
	case 1:
		return g.defClass(g.oneOf("cname", classPool), false)
	case 2:
		var cands []string
		for _, k := range constPool {
			if !g.m.consts[k] {
				cands = append(cands, k)
			}
		}
		if len(cands) == 0 {
			return g.defClass(g.oneOf("cname", classPool), false)
		}
		return g.defConst(g.oneOf("kname", cands))
	case 3:
		return g.defModule(g.oneOf("modname", modPool), false)
	default:
		// two definitions in one input
		mname := g.oneOf("mname", redefMeths)
		if g.avoidStale && g.m.meths[mname] && g.m.called[mname] {
			g.avoided++
			mname = "g" // never called from a method body
		}
		a := g.defTopMethod(mname, false)
		b := g.defClass(g.oneOf("cname", classPool), false)
		return Input{Kind: "def", Shape: "method+class", Src: a.Src + "\n" + b.Src, Defines: append(a.Defines, b.Defines...), Intro: append(a.Intro, b.Intro...)}
	}
}

// ------------------------------------------------------------ bad inputs ----

// failingStmt is a statement the checker rejects.
func (g *g) failingStmt() string {
	alts := []string{`nope`, `1 + "s"`, `Nope`, `nope(1)`, `1.nope`}
	for _, l := range g.localsOf("Int") {
		alts = append(alts, l+` = "s"`, l+` = "s"`)
	}
	for _, l := range g.localsOf("String") {
		alts = append(alts, l+` = 1`)
	}
	for _, c := range sortedKeys(g.m.classes) {
		alts = append(alts, c+`(1, 2)`, c+`(1).nope(2)`)
	}
	return g.oneOf("fstmt", alts)
}

func (g *g) freeLocal() string {
	for _, l := range localPool {
		if _, ok := g.m.locals[l]; !ok {
			return l
		}
	}
	return ""
}

func (g *g) badInput() Input {
	snapshot := g.m.clone()
	restore := func() { *g.m = *snapshot }
	if ms := sortedKeys(g.m.mods); len(ms) > 0 && g.chance(10, "badusing") {
		mod := g.oneOf("umod", ms)
		in := Input{Kind: "def", Shape: "bad-using-then-failing-stmt", Bad: true, Partial: true, Src: "using " + mod + "::*\n" + g.failingStmt()}
		if !g.m.using[mod] {
			in.Intro = []string{"using:" + mod}
		}
		return in
	}
	if g.chance(6, "badmixin") {
		return g.defMixin(true)
	}
	if g.chance(7, "badsuper") {
		// fails in the namespace / type definition phase, before any method is looked at
		name := g.oneOf("cname", classPool)
		in := Input{Kind: "def", Shape: "bad-class-undefined-superclass", Bad: true, Partial: true,
			Src: "class " + name + " < Qux\n" + methodLine("  ", "m1", g.body(1, name, false, nil, "")) + "\nend"}
		if g.m.classes[name] == nil {
			in.Intro = []string{name, name + "#m1"}
		}
		return in
	}
	switch g.weighted("badkind", 5, 3, 5, 2, 2, 2, 1, 2, 3, 2) {
	case 0: // class whose last method has a type error
		return g.defClass(g.oneOf("cname", classPool), true)
	case 1: // method (re)definition with an error in the body
		cands := append(append([]string{}, redefMeths...), stabMeths...)
		return g.defTopMethod(g.oneOf("mname", cands), true)
	case 2: // valid definitions followed by a failing statement
		var parts []Input
		n := 1 + g.pick(2, "ndefs")
		for i := 0; i < n; i++ {
			switch g.pick(4, "dk") {
			case 0:
				parts = append(parts, g.defTopMethod(g.oneOf("mname", append(append([]string{}, redefMeths...), stabMeths...)), false))
			case 1:
				parts = append(parts, g.defClass(g.oneOf("cname", classPool), false))
			case 2:
				var cands []string
				for _, k := range constPool {
					if !g.m.consts[k] {
						cands = append(cands, k)
					}
				}
				if len(cands) > 0 {
					parts = append(parts, g.defConst(cands[0]))
				} else {
					parts = append(parts, g.defModule(g.oneOf("modname", modPool), false))
				}
			default:
				parts = append(parts, g.defModule(g.oneOf("modname", modPool), false))
			}
		}
		restore() // nothing of this may survive
		in := Input{Kind: "def", Shape: "bad-defs-then-failing-stmt", Bad: true, Partial: true}
		var srcs []string
		for _, p := range parts {
			srcs = append(srcs, p.Src)
			in.Intro = append(in.Intro, p.Intro...)
			in.Defines = append(in.Defines, p.Defines...)
		}
		srcs = append(srcs, g.failingStmt())
		in.Src = strings.Join(srcs, "\n")
		return in
	case 3: // local declaration followed by a failing statement
		l := g.freeLocal()
		if l == "" {
			l = "e"
		}
		typ, bad := "Int", `"s"`
		val := g.intExpr(1, true)
		if g.chance(30, "strl") {
			typ, bad, val = "String", "1", g.strExpr(true)
		}
		decl := l + " := " + val
		if g.chance(40, "varl") {
			decl = "var " + l + ": " + typ + " = " + val
		}
		return Input{Kind: "mut", Shape: "bad-local-then-failing-stmt", Bad: true, Partial: true, Intro: []string{l},
			Src: decl + "\n" + l + " = " + bad}
	case 4: // invalid override (different signature)
		cands := []string{}
		for _, k := range sortedKeys(g.m.meths) {
			if k != "bang" {
				cands = append(cands, k)
			}
		}
		if len(cands) == 0 {
			return g.defTopMethod("f", true)
		}
		name := g.oneOf("ov", cands)
		src := g.oneOf("ovs", []string{
			"def " + name + "(n: String): Int then 1",
			"def " + name + "(n: Int): String then \"x\"",
			"def " + name + "(n: Int, k: Int): Int then n + k",
		})
		in := Input{Kind: "def", Shape: "bad-override", Bad: true, Src: src}
		if name == "f" || name == "g" {
			in.Defines = []string{name}
		}
		return in
	case 5: // class with an attribute that the constructor does not initialise (reported after method checks)
		name := g.oneOf("cname", classPool)
		if g.m.classes[name] != nil {
			return g.defClass(name, true)
		}
		return Input{Kind: "def", Shape: "bad-class-uninitialised-attr", Bad: true, Partial: true, Intro: []string{name, name + "#m1"},
			Src: "class " + name + "\n  attr q: Int\n" + methodLine("  ", "m1", g.body(1, name, false, nil, "")) + "\nend"}
	case 6: // parse error
		return Input{Kind: "def", Shape: "bad-parse", Bad: true, Src: g.oneOf("perr", []string{"class Foo", "def f(n: Int): Int then", "x := (1 +", "module M\n  def mm(n: Int): Int then n\n"})}
	case 7: // module with a failing last method
		return g.defModule(g.oneOf("modname", modPool), true)
	case 8: // redeclaration with a different type / constant redeclaration / type-changing assignment
		var alts []Input
		for _, l := range sortedKeys(g.m.locals) {
			switch g.m.locals[l] {
			case "Int":
				alts = append(alts, Input{Kind: "mut", Shape: "bad-local-retype", Bad: true, Src: "var " + l + ": String = \"s\""},
					Input{Kind: "mut", Shape: "bad-assign-type", Bad: true, Src: l + " = \"s\""},
					Input{Kind: "mut", Shape: "bad-redeclare-type", Bad: true, Src: l + " := \"s\""})
			case "String":
				alts = append(alts, Input{Kind: "mut", Shape: "bad-local-retype", Bad: true, Src: "var " + l + ": Int = 1"},
					Input{Kind: "mut", Shape: "bad-assign-type", Bad: true, Src: l + " = 1"})
			default:
				alts = append(alts, Input{Kind: "mut", Shape: "bad-assign-type", Bad: true, Src: l + " = 1"})
			}
		}
		for _, k := range sortedKeys(g.m.consts) {
			alts = append(alts, Input{Kind: "def", Shape: "bad-const-redeclare", Bad: true, Src: "const " + k + " = \"s\""})
		}
		if len(alts) == 0 {
			return g.defTopMethod("f", true)
		}
		return alts[g.pick(len(alts), "retype")]
	default: // a valid class followed by a second definition that fails
		a := g.defClass(g.oneOf("cname", classPool), false)
		restore()
		var b Input
		if g.chance(50, "second") {
			b = g.defModule(g.oneOf("modname", modPool), true)
		} else {
			b = g.defTopMethod(g.oneOf("mname", redefMeths), true)
		}
		return Input{Kind: "def", Shape: "bad-class-then-bad-def", Bad: true, Partial: true, Src: a.Src + "\n" + b.Src,
			Defines: append(a.Defines, b.Defines...), Intro: append(a.Intro, b.Intro...)}
	}
}

func (m *model) clone() *model {
	c := newModel()
	for k, v := range m.locals {
		c.locals[k] = v
	}
	for k, v := range m.meths {
		c.meths[k] = v
	}
	for k, v := range m.consts {
		c.consts[k] = v
	}
	for k, v := range m.called {
		c.called[k] = v
	}
	for k, v := range m.using {
		c.using[k] = v
	}
	for k, v := range m.frozen {
		c.frozen[k] = v
	}
	c.mixin = m.mixin
	cp := func(src map[string]*nsM, dst map[string]*nsM) {
		for k, v := range src {
			n := &nsM{methods: map[string]bool{}, super: v.super}
			for a, b := range v.methods {
				n.methods[a] = b
			}
			dst[k] = n
		}
	}
	cp(m.classes, c.classes)
	cp(m.mods, c.mods)
	return c
}

// --------------------------------------------------------------- probes ----

// probesFor builds observer / mutator inputs aimed at what a bad input touched.
func (g *g) probesFor(bad Input) []Input {
	var out []Input
	add := func(kind, src string) {
		out = append(out, Input{Kind: kind, Shape: "probe", Src: src, Probe: true})
	}
	names := append(append([]string{}, bad.Intro...), bad.Defines...)
	seen := map[string]bool{}
	for _, n := range names {
		if seen[n] {
			continue
		}
		seen[n] = true
		switch {
		case strings.HasPrefix(n, "using:"):
			add("obs", "C")
			add("obs", "println(mm("+g.lit()+"))")
		case strings.Contains(n, "#"):
			p := strings.SplitN(n, "#", 2)
			add("obs", "println("+p[0]+"("+g.lit()+")."+p[1]+"("+g.lit()+"))")
			for _, o := range g.objLocals() {
				if g.m.locals[o] == p[0] {
					add("obs", o+"."+p[1]+"("+g.lit()+")")
				}
			}
		case strings.Contains(n, "."):
			add("obs", "println("+n+"("+g.lit()+"))")
		case n[0] >= 'A' && n[0] <= 'Z':
			add("obs", n)
			if n[0] == 'K' {
				add("obs", "println("+n+" + 1)")
			} else if n == "M" || n == "N" {
				add("obs", n+"::C")
			}
		case strings.Contains("abcde", n): // local
			add("obs", n)
			add("obs", "println("+n+")")
		default: // top-level method
			add("obs", "println("+n+"("+g.lit()+"))")
			add("obs", n+"("+g.lit()+")")
		}
	}
	// previously declared locals keep their types
	for _, l := range sortedKeys(g.m.locals) {
		if strings.Contains(bad.Src, l+" =") || strings.Contains(bad.Src, l+" :=") || strings.Contains(bad.Src, "var "+l+":") {
			if t := g.m.locals[l]; t != "Inc" && t != "Fn" {
				add("mut", l+" = "+g.valueOf(t))
			}
			add("obs", "println("+l+")")
		}
	}
	return out
}

// ------------------------------------------------- mutators / observers ----

func (g *g) mutator() Input {
	var alts []func() Input
	if l := g.freeLocal(); l != "" {
		alts = append(alts, func() Input {
			typ := "Int"
			r := g.pick(10, "ltyp")
			if r >= 6 && r < 8 {
				typ = "String"
			} else if r >= 8 {
				if cs := sortedKeys(g.m.classes); len(cs) > 0 {
					typ = g.oneOf("lcls", cs)
				}
			}
			val := g.valueOf(typ)
			src := l + " := " + val
			if g.chance(40, "var") {
				src = "var " + l + ": " + typ + " = " + val
			}
			g.m.locals[l] = typ
			return Input{Kind: "mut", Shape: "local-decl", Src: src, Intro: []string{l}}
		})
		alts = append(alts, alts[0])
	}
	// closures over the session's locals (upvalues into the REPL's persistent stack)
	if l := g.freeLocal(); l != "" && len(g.localsOf("Int")) > 0 {
		alts = append(alts, func() Input {
			cap := g.oneOf("cap", g.localsOf("Int"))
			if g.chance(50, "inc") {
				g.m.locals[l] = "Inc"
				g.queued = append(g.queued, Input{Kind: "mut", Shape: "closure-call", Src: l + ".()"}, Input{Kind: "obs", Shape: "print", Src: "println(" + cap + ")"})
				return Input{Kind: "mut", Shape: "closure-decl", Src: l + " := || -> " + cap + " += " + g.lit(), Intro: []string{l}}
			}
			g.m.locals[l] = "Fn"
			return Input{Kind: "mut", Shape: "closure-decl", Src: l + " := |n: Int| -> n + " + cap, Intro: []string{l}}
		})
	}
	for _, l := range sortedKeys(g.m.locals) {
		l := l
		typ := g.m.locals[l]
		if typ == "Inc" {
			alts = append(alts, func() Input { return Input{Kind: "mut", Shape: "closure-call", Src: l + ".()"} },
				func() Input { return Input{Kind: "mut", Shape: "closure-call", Src: "println(" + l + ".())"} })
			continue
		}
		if typ == "Fn" {
			continue
		}
		alts = append(alts, func() Input { return Input{Kind: "mut", Shape: "assign", Src: l + " = " + g.valueOf(typ)} })
		switch typ {
		case "Int":
			alts = append(alts, func() Input {
				return Input{Kind: "mut", Shape: "op-assign", Src: l + " " + g.oneOf("aop", []string{"+=", "-=", "*="}) + " " + g.intExpr(1, true)}
			})
			alts = append(alts, func() Input { return Input{Kind: "mut", Shape: "redeclare", Src: l + " := " + g.intExpr(1, true)} })
		case "String":
			alts = append(alts, func() Input { return Input{Kind: "mut", Shape: "op-assign", Src: l + ` += "` + g.lit() + `"`} })
		default:
			alts = append(alts, func() Input { return Input{Kind: "mut", Shape: "attr-set", Src: l + ".v = " + g.intExpr(1, true)} })
		}
	}
	if len(alts) == 0 {
		return g.observer(false)
	}
	return alts[g.pick(len(alts), "mut")]()
}

// anyName draws a name of the whole pool, defined or not.
func (g *g) wildExpr() string {
	alts := []string{}
	for _, l := range localPool {
		alts = append(alts, l)
	}
	for _, f := range append(append([]string{}, redefMeths...), stabMeths...) {
		alts = append(alts, f+"("+g.lit()+")")
	}
	for _, c := range classPool {
		alts = append(alts, c)
		for _, me := range cmethPool {
			alts = append(alts, c+"("+g.lit()+")."+me+"("+g.lit()+")")
		}
	}
	for _, k := range constPool {
		alts = append(alts, k)
	}
	for _, mo := range modPool {
		alts = append(alts, mo+"::C")
		for _, me := range mmethPool {
			alts = append(alts, mo+"."+me+"("+g.lit()+")")
		}
	}
	for _, o := range g.objLocals() {
		for _, me := range cmethPool {
			alts = append(alts, o+"."+me+"("+g.lit()+")")
		}
	}
	alts = append(alts, "C", "mm("+g.lit()+")", "nn("+g.lit()+")", "Foo("+g.lit()+").mx("+g.lit()+")", "Bar("+g.lit()+").my("+g.lit()+")", "Foo("+g.lit()+").a1("+g.lit()+")", "Foo("+g.lit()+").z1("+g.lit()+")", "Mx")
	return g.oneOf("wild", alts)
}

func (g *g) observer(wild bool) Input {
	if wild {
		e := g.wildExpr()
		if g.chance(50, "wp") && !(e[0] >= 'A' && e[0] <= 'Z' && !strings.ContainsAny(e, "(:")) {
			return Input{Kind: "obs", Shape: "wild-print", Src: "println(" + e + ")"}
		}
		return Input{Kind: "obs", Shape: "wild-expr", Src: e}
	}
	switch g.weighted("obs", 4, 3, 2, 1) {
	case 0:
		return Input{Kind: "obs", Shape: "print", Src: "println(" + g.intExpr(2, false) + ")"}
	case 1:
		return Input{Kind: "obs", Shape: "expr", Src: g.intExpr(2, false)}
	case 2:
		return Input{Kind: "obs", Shape: "print2", Src: "println(" + g.strExpr(false) + ", " + g.intExpr(2, false) + ")"}
	default:
		return Input{Kind: "obs", Shape: "print-then-expr", Src: "println(" + g.intExpr(1, false) + ")\n" + g.intExpr(2, false)}
	}
}

// thrower builds an input that throws at run time before any other effect.
func (g *g) thrower() Input {
	var alts []Input
	alts = append(alts, Input{Kind: "obs", Shape: "throw", Src: "throw unchecked :e" + g.lit()})
	for _, l := range g.localsOf("Int") {
		alts = append(alts, Input{Kind: "obs", Shape: "throw-div0", Src: "println(" + g.intExpr(1, false) + " / (" + l + " - " + l + "))"})
	}
	if g.m.meths["bang"] {
		alts = append(alts, Input{Kind: "obs", Shape: "throw-call", Src: "println(" + g.lit() + " + bang(" + g.intExpr(1, false) + "))"})
		alts = append(alts, Input{Kind: "obs", Shape: "throw-call", Src: "println(" + g.lit() + ", bang(" + g.lit() + "))"})
		for _, l := range g.localsOf("Int") {
			alts = append(alts, Input{Kind: "mut", Shape: "throw-in-assign", Src: l + " = " + g.lit() + " + bang(" + l + ")"})
		}
		for _, c := range sortedKeys(g.m.classes) {
			alts = append(alts, Input{Kind: "obs", Shape: "throw-in-arg", Src: c + "(bang(1)).v"})
		}
		if g.m.meths["s1"] {
			alts = append(alts, Input{Kind: "obs", Shape: "throw-in-arg", Src: "s1(bang(" + g.lit() + ")) + 1"})
		}
	}
	for _, l := range g.localsOf("Int") {
		alts = append(alts, Input{Kind: "mut", Shape: "throw-div0-assign", Src: l + " = " + g.lit() + " / (" + l + " - " + l + ")"})
	}
	in := alts[g.pick(len(alts), "thr")]
	in.Throws = true
	return in
}

// ------------------------------------------------------------------ gen ----

func genCase(t *rapid.T, avoidStale, avoidUsing, avoidAlias bool) Case {
	gg := &g{t: t, m: newModel(), avoidStale: avoidStale, avoidUsing: avoidUsing, avoidAlias: avoidAlias}
	n := rapid.IntRange(3, 15).Draw(t, "n")
	var c Case
	var pending []Input // probes queued after a bad input
	for len(c.Inputs) < n {
		if len(gg.queued) > 0 {
			c.Inputs = append(c.Inputs, gg.queued[0])
			gg.queued = gg.queued[1:]
			continue
		}
		if len(pending) > 0 {
			if gg.chance(75, "doprobe") {
				i := gg.pick(len(pending), "whichprobe")
				c.Inputs = append(c.Inputs, pending[i])
				pending = append(pending[:i], pending[i+1:]...)
				if len(pending) > 2 {
					pending = pending[:2]
				}
				continue
			}
			pending = nil
		}
		defined := len(gg.m.meths) + len(gg.m.classes) + len(gg.m.mods) + len(gg.m.consts)
		var in Input
		wDef, wBad, wMut, wObs, wWild, wThrow := 25, 22, 16, 20, 7, 8
		if defined < 2 {
			wDef, wBad = 55, 12
		}
		if len(gg.m.locals) == 0 {
			wMut += 8
		}
		switch gg.weighted("action", wDef, wBad, wMut, wObs, wWild, wThrow) {
		case 0:
			in = gg.validDef()
		case 1:
			in = gg.badInput()
			pending = gg.probesFor(in)
		case 2:
			in = gg.mutator()
		case 3:
			in = gg.observer(false)
		case 4:
			in = gg.observer(true)
		default:
			in = gg.thrower()
		}
		c.Inputs = append(c.Inputs, in)
	}
	c.Avoided = gg.avoided
	c.AvoidedUsing = gg.avoidedUsing
	c.AvoidedAlias = gg.avoidedAlias
	return c
}
