// Package c19: `inspect` output is Elk source that evaluates back to an equal value.
package c19

import (
	"fmt"
	"math"
	"math/big"
	"strconv"
	"strings"
	"unicode/utf8"

	"github.com/elk-language/elk/value"
	"pgregory.net/rapid"

	"verif/internal/vgen"
)

// Spec is a JSON-serialisable description of one Elk value.
//
//	int                      S decimal
//	i8..u64, uint            S decimal (in range)
//	float f64 f32            S IEEE bits in hex (f32: 32 bits)
//	bigfloat                 S float64 bits in hex, P precision to set (0: the 53 bits of the conversion)
//	bigdec                   S decimal literal text (without the bf suffix): the value of the literal `<S>bf`
//	str sym                  B bytes
//	char                     S code point (decimal)
//	bool                     S true|false ; nil
//	regex                    B literal source, S flags, E optional [str] interpolated at the end
//	range                    S operator: "..." "<.<" "<.." "..<" | "b..." "b..<" (beginless) | "e..." "e<.." (endless); E bounds
//	list tuple set           E elements
//	map record               E k0 v0 k1 v1 ...
type Spec struct {
	K string `json:"k"`
	S string `json:"s,omitempty"`
	B []byte `json:"b,omitempty"`
	P int    `json:"p,omitempty"`
	E []Spec `json:"e,omitempty"`
}

func (s Spec) String() string {
	switch s.K {
	case "str", "sym":
		return fmt.Sprintf("%s(%q)", s.K, string(s.B))
	case "regex":
		return fmt.Sprintf("regex(%q,%s,%v)", string(s.B), s.S, s.E)
	case "float", "f64", "bigfloat":
		return fmt.Sprintf("%s(%v,p%d)", s.K, s.f64(), s.P)
	case "f32":
		return fmt.Sprintf("f32(%v)", s.f32())
	case "list", "tuple", "set", "map", "record":
		return fmt.Sprintf("%s%v", s.K, s.E)
	case "range":
		return fmt.Sprintf("range(%s)%v", s.S, s.E)
	}
	return s.K + "(" + s.S + ")"
}

func (s Spec) f64() float64 {
	u, _ := strconv.ParseUint(s.S, 16, 64)
	return math.Float64frombits(u)
}

func (s Spec) f32() float32 {
	u, _ := strconv.ParseUint(s.S, 16, 32)
	return math.Float32frombits(uint32(u))
}

func f64spec(k string, f float64) Spec {
	return Spec{K: k, S: strconv.FormatUint(math.Float64bits(f), 16)}
}

func f32spec(f float32) Spec {
	return Spec{K: "f32", S: strconv.FormatUint(uint64(math.Float32bits(f)), 16)}
}

// ---------------------------------------------------------------- generator

var runePool = []rune{'a', 'Z', '5', ' ', '_', 'é', 'ß', '日', 0x1F600, // graphic
	0, 1, 7, 8, 9, 10, 11, 12, 13, 0x1b, 0x7f, // C0 controls
	0x80, 0x85, 0x9f, 0xa0, 0xad, 0xff, 0x100, // Latin-1 block: C1 controls, nbsp, soft hyphen
	0x200b, 0x2028, 0xfeff, 0xe000, 0xfffd, 0xffff, 0x10ffff, 0xe0001, 0x301, // format / private use / noncharacters / combining
	'$', '#', '"', '\'', '\\', '`', '{', '}', '/'}

var rawPieces = []string{"\xff", "\xc3", "\x80", "\xe6\x97", "\xc0\x80", "\xed\xa0\x80", "\xf4\x90\x80\x80", // invalid UTF-8
	"${", "#{", "${a}", "#{1}", "\\n", "\\x41", "\\u0041", "\\", "\\\\", "\"", "ab", "foo", "", "\r\n", "é", "x y"}

func genRune(t *rapid.T, label string) rune {
	switch vgen.Pick(t, 4, label+"_rk") {
	case 0:
		r := rapid.Rune().Draw(t, label+"_any")
		if r >= 0xd800 && r <= 0xdfff || !utf8.ValidRune(r) {
			r = 'x'
		}
		return r
	case 1:
		return rune(rapid.IntRange(0, 0x17f).Draw(t, label+"_lat"))
	default:
		return runePool[vgen.Pick(t, len(runePool), label+"_pool")]
	}
}

func genBytes(t *rapid.T, label string) []byte {
	n := rapid.IntRange(0, 5).Draw(t, label+"_n")
	var b []byte
	for i := 0; i < n; i++ {
		switch vgen.Pick(t, 4, label+"_bk") {
		case 0:
			b = append(b, rawPieces[vgen.Pick(t, len(rawPieces), label+"_raw")]...)
		case 1:
			b = append(b, vgen.Str(t, label+"_v")...)
		default:
			b = utf8.AppendRune(b, genRune(t, label))
		}
	}
	return b
}

var symPool = []string{"a", "foo", "foo_bar", "_foo", "Foo", "FOO", "foo1", "1foo", "5", "", " ", "foo bar", "foo?", "foo!", "foo=", "+", "-", "==", "[]", "<=>", "if", "nil", "true", "class", "self", "end", "é", "日本", "a\"b", "a\\b", "a\nb", "a$b", "a${b}", "a#{b}", "a#b", "\x00", "\x7f", "\u0080", "­", "​", "😀", "a\xffb", "\xc3"}

func genSym(t *rapid.T, label string) []byte {
	if vgen.Pick(t, 4, label+"_sk") == 0 {
		return genBytes(t, label)
	}
	return []byte(symPool[vgen.Pick(t, len(symPool), label+"_pool")])
}

func genFloat(t *rapid.T, label string) float64 {
	switch vgen.Pick(t, 4, label+"_fk2") {
	case 0:
		// short decimals with a scale
		m := float64(rapid.IntRange(-99999, 99999).Draw(t, label+"_m"))
		e := rapid.IntRange(-30, 30).Draw(t, label+"_e")
		return m * math.Pow(10, float64(e))
	case 1:
		// one ulp around a special value
		f := vgen.Float64(t, label)
		switch rapid.IntRange(0, 2).Draw(t, label+"_ulp") {
		case 1:
			return math.Nextafter(f, math.Inf(1))
		case 2:
			return math.Nextafter(f, math.Inf(-1))
		}
		return f
	default:
		return vgen.Float64(t, label)
	}
}

var bigdecPool = []string{"0", "1", "0.1", "1.5", "3.14", "1e10", "1e-10", "12345678901234567890", "0.30000000000000004", "0.1234567890123456789012345678901234567890",
	"1e100", "1e-100", "123456789.123456789123456789", "2.5e+3", "0.000001", "9007199254740993", "1.7976931348623157e308", "1e400", "1e-400", "4.9e-324"}

func genScalar(t *rapid.T, label string) Spec {
	switch vgen.Pick(t, 14, label+"_sk") {
	case 0, 1:
		return Spec{K: "int", S: vgen.BigInt(t, label).String()}
	case 2, 3:
		return f64spec("float", genFloat(t, label))
	case 4:
		return f64spec("f64", genFloat(t, label))
	case 5:
		return f32spec(float32(genFloat(t, label)))
	case 6:
		if vgen.Pick(t, 3, label+"_bd") == 0 {
			if rapid.Bool().Draw(t, label+"_bdpool") {
				return Spec{K: "bigdec", S: bigdecPool[vgen.Pick(t, len(bigdecPool), label+"_bdp")]}
			}
			n := rapid.IntRange(1, 40).Draw(t, label+"_bdn")
			var sb strings.Builder
			for i := 0; i < n; i++ {
				sb.WriteByte(byte('0' + rapid.IntRange(0, 9).Draw(t, label+"_bdd")))
			}
			d := sb.String()
			p := rapid.IntRange(0, n).Draw(t, label+"_bdpt")
			txt := "0." + d
			if p > 0 {
				txt = strings.TrimLeft(d[:p], "0")
				if txt == "" {
					txt = "0"
				}
				if p < n {
					txt += "." + d[p:]
				}
			}
			if rapid.IntRange(0, 3).Draw(t, label+"_bde") == 0 {
				txt += "e" + strconv.Itoa(rapid.IntRange(-50, 50).Draw(t, label+"_bdex"))
			}
			return Spec{K: "bigdec", S: txt}
		}
		s := f64spec("bigfloat", genFloat(t, label))
		s.P = []int{0, 0, 0, 24, 53, 64, 100, 200}[vgen.Pick(t, 8, label+"_prec")]
		return s
	case 7:
		k := vgen.IntKinds[vgen.Pick(t, len(vgen.IntKinds), label+"_ik")]
		return Spec{K: k, S: vgen.FixedInt(t, k, label).String()}
	case 8, 9:
		return Spec{K: "str", B: genBytes(t, label)}
	case 10:
		return Spec{K: "char", S: strconv.Itoa(int(genRune(t, label)))}
	case 11:
		return Spec{K: "sym", B: genSym(t, label)}
	case 12:
		return []Spec{{K: "bool", S: "true"}, {K: "bool", S: "false"}, {K: "nil"}}[vgen.Pick(t, 3, label+"_bn")]
	default:
		return genRegex(t, label)
	}
}

var rxPieces = []string{"a", "b", "foo", "b+", "c*?", "\\d", "\\w+", "[a-z]", "[^0-9]", "(x|y)", "(?:z)", ".", "^", "$", "\\n", "\\t", "é", "日", "\\x41", "\\u0041", "\\$", "\\.", "\\\\", " ", "#", "#c", "a{2,3}", "\\p{L}", "\\+", "\n", "\t", "\"", "'", "`", ":", "%", "\\(", "\\[", "-", "_", "😀", "\\ "}
var rxInterp = []string{"a", "b+", "/", "a/b", "\\d", "\n", "\"", "$", "#", "é", "", " ", "\\\\", "x|y"}
var rxFlags = []string{"", "", "", "i", "m", "x", "s", "U", "a", "im", "ix", "imsx", "imUaxs"}

func genRegex(t *rapid.T, label string) Spec {
	n := rapid.IntRange(0, 4).Draw(t, label+"_rn")
	var sb strings.Builder
	for i := 0; i < n; i++ {
		sb.WriteString(rxPieces[vgen.Pick(t, len(rxPieces), label+"_rp")])
	}
	s := Spec{K: "regex", B: []byte(sb.String()), S: rxFlags[vgen.Pick(t, len(rxFlags), label+"_rf")]}
	if vgen.Pick(t, 4, label+"_ri") == 0 {
		s.E = []Spec{{K: "str", B: []byte(rxInterp[vgen.Pick(t, len(rxInterp), label+"_rip")])}}
	}
	return s
}

// genKey draws a value usable as a map/record key or set element: hashable scalars only
// (collections hash by identity: recorded C18 finding), never NaN.
func genKey(t *rapid.T, label string) Spec {
	for i := 0; ; i++ {
		s := genScalar(t, fmt.Sprintf("%s_k%d", label, i))
		switch s.K {
		case "regex", "bigfloat", "bigdec":
			continue
		case "float", "f64":
			if math.IsNaN(s.f64()) {
				continue
			}
		case "f32":
			if f := s.f32(); f != f {
				continue
			}
		}
		return s
	}
}

func keyID(s Spec) string {
	switch s.K {
	case "float", "f64":
		if s.f64() == 0 {
			return s.K + ":0"
		}
	case "f32":
		if s.f32() == 0 {
			return "f32:0"
		}
	}
	return s.K + ":" + s.S + ":" + string(s.B)
}

var rangeOps = []string{"...", "<.<", "<..", "..<", "b...", "b..<", "e...", "e<.."}

func genRange(t *rapid.T, label string) Spec {
	op := rangeOps[vgen.Pick(t, len(rangeOps), label+"_op")]
	var a, b Spec
	switch vgen.Pick(t, 6, label+"_rk") {
	case 0, 1:
		a, b = Spec{K: "int", S: vgen.BigInt(t, label+"a").String()}, Spec{K: "int", S: vgen.BigInt(t, label+"b").String()}
	case 2:
		a, b = f64spec("float", genFloat(t, label+"a")), f64spec("float", genFloat(t, label+"b"))
	case 3:
		a, b = Spec{K: "char", S: strconv.Itoa(int(genRune(t, label+"a")))}, Spec{K: "char", S: strconv.Itoa(int(genRune(t, label+"b")))}
	case 4:
		a, b = Spec{K: "str", B: genBytes(t, label+"a")}, Spec{K: "str", B: genBytes(t, label+"b")}
	default:
		k := vgen.IntKinds[vgen.Pick(t, len(vgen.IntKinds), label+"_ik")]
		a, b = Spec{K: k, S: vgen.FixedInt(t, k, label+"a").String()}, Spec{K: k, S: vgen.FixedInt(t, k, label+"b").String()}
	}
	if op[0] == 'b' || op[0] == 'e' {
		return Spec{K: "range", S: op, E: []Spec{a}}
	}
	return Spec{K: "range", S: op, E: []Spec{a, b}}
}

// genValue draws a value with at most `depth` levels of collection nesting.
func genValue(t *rapid.T, label string, depth int) Spec {
	n := 10
	if depth <= 0 {
		n = 5
	}
	switch vgen.Pick(t, n, label+"_vk") {
	case 0, 1, 2, 3:
		return genScalar(t, label)
	case 4:
		return genRange(t, label)
	case 5, 6, 7:
		k := []string{"list", "tuple", "set"}[vgen.Pick(t, 3, label+"_ck")]
		cnt := rapid.IntRange(0, 4).Draw(t, label+"_len")
		if rapid.IntRange(0, 40).Draw(t, label+"_long") == 0 {
			cnt = 17 // multi-line rendering
		}
		s := Spec{K: k}
		seen := map[string]bool{}
		for i := 0; i < cnt; i++ {
			if k == "set" {
				e := genKey(t, fmt.Sprintf("%s_%d", label, i))
				if seen[keyID(e)] {
					continue
				}
				seen[keyID(e)] = true
				s.E = append(s.E, e)
			} else {
				s.E = append(s.E, genValue(t, fmt.Sprintf("%s_%d", label, i), depth-1))
			}
		}
		return s
	default:
		k := []string{"map", "record"}[vgen.Pick(t, 2, label+"_mk")]
		cnt := rapid.IntRange(0, 3).Draw(t, label+"_len")
		s := Spec{K: k}
		seen := map[string]bool{}
		for i := 0; i < cnt; i++ {
			e := genKey(t, fmt.Sprintf("%s_%d", label, i))
			if seen[keyID(e)] {
				continue
			}
			seen[keyID(e)] = true
			s.E = append(s.E, e, genValue(t, fmt.Sprintf("%s_%dv", label, i), depth-1))
		}
		return s
	}
}

// ---------------------------------------------------------------- classification

func (s Spec) depth() int {
	d := 0
	for _, e := range s.E {
		if x := e.depth(); x > d {
			d = x
		}
	}
	switch s.K {
	case "list", "tuple", "set", "map", "record":
		return d + 1
	}
	return d
}

func (s Spec) containsKind(kinds ...string) bool {
	for _, k := range kinds {
		if s.K == k {
			return true
		}
	}
	for _, e := range s.E {
		if e.containsKind(kinds...) {
			return true
		}
	}
	return false
}

func (s Spec) containsNaN() bool {
	switch s.K {
	case "float", "f64", "bigfloat":
		return math.IsNaN(s.f64())
	case "f32":
		f := s.f32()
		return f != f
	}
	for _, e := range s.E {
		if e.containsNaN() {
			return true
		}
	}
	return false
}

func (s Spec) containsNegZero() bool {
	switch s.K {
	case "float", "f64", "bigfloat":
		f := s.f64()
		return f == 0 && math.Signbit(f)
	case "f32":
		f := float64(s.f32())
		return f == 0 && math.Signbit(f)
	}
	for _, e := range s.E {
		if e.containsNegZero() {
			return true
		}
	}
	return false
}

// nonTrivial implements the stated rule: a character outside printable ASCII, a float
// that is not a short decimal, or nesting >= 2.
func (s Spec) nonTrivial() bool {
	if s.depth() >= 2 {
		return true
	}
	switch s.K {
	case "str", "sym", "regex":
		for _, c := range s.B {
			if c < 0x20 || c > 0x7e {
				return true
			}
		}
	case "char":
		n, _ := strconv.Atoi(s.S)
		return n < 0x20 || n > 0x7e
	case "float", "f64", "bigfloat":
		f := s.f64()
		return math.IsNaN(f) || math.IsInf(f, 0) || len(strconv.FormatFloat(f, 'g', -1, 64)) > 8
	case "f32":
		f := float64(s.f32())
		return f != f || math.IsInf(f, 0) || len(strconv.FormatFloat(f, 'g', -1, 32)) > 8
	case "bigdec":
		return len(s.S) > 8
	}
	for _, e := range s.E {
		if e.nonTrivial() {
			return true
		}
	}
	return false
}

var classOf = map[string]string{"int": "Std::Int", "float": "Std::Float", "f64": "Std::Float64", "f32": "Std::Float32", "bigfloat": "Std::BigFloat", "bigdec": "Std::BigFloat",
	"i8": "Std::Int8", "i16": "Std::Int16", "i32": "Std::Int32", "i64": "Std::Int64", "u8": "Std::UInt8", "u16": "Std::UInt16", "u32": "Std::UInt32", "u64": "Std::UInt64", "uint": "Std::UInt",
	"str": "Std::String", "char": "Std::Char", "sym": "Std::Symbol", "nil": "Std::Nil", "regex": "Std::Regex",
	"list": "Std::ArrayList", "tuple": "Std::ArrayTuple", "set": "Std::HashSet", "map": "Std::HashMap", "record": "Std::HashRecord"}

var rangeClass = map[string]string{"...": "Std::ClosedRange", "<.<": "Std::OpenRange", "<..": "Std::LeftOpenRange", "..<": "Std::RightOpenRange",
	"b...": "Std::BeginlessClosedRange", "b..<": "Std::BeginlessOpenRange", "e...": "Std::EndlessClosedRange", "e<..": "Std::EndlessOpenRange"}

func (s Spec) class() string {
	switch s.K {
	case "bool":
		if s.S == "true" {
			return "Std::True"
		}
		return "Std::False"
	case "range":
		return rangeClass[s.S]
	}
	return classOf[s.K]
}

// ---------------------------------------------------------------- Elk source that constructs the value without using inspect's notation

func intSrc(n *big.Int) string {
	neg := n.Sign() < 0
	a := new(big.Int).Abs(n)
	var chunks []string
	mask := big.NewInt(0xffffffff)
	for a.Sign() > 0 {
		chunks = append(chunks, fmt.Sprintf("0x%x", new(big.Int).And(a, mask)))
		a.Rsh(a, 32)
	}
	if len(chunks) == 0 {
		return "0x0"
	}
	src := chunks[len(chunks)-1]
	for i := len(chunks) - 2; i >= 0; i-- {
		src = "(" + src + " * 0x100000000 + " + chunks[i] + ")"
	}
	if neg {
		return "(0x0 - " + src + ")"
	}
	return src
}

// floatSrc builds the float arithmetically from its integer mantissa and binary exponent.
func floatSrc(f float64) string {
	switch {
	case math.IsNaN(f):
		return "(0.0 / 0.0)"
	case math.IsInf(f, 1):
		return "(1.0 / 0.0)"
	case math.IsInf(f, -1):
		return "(-1.0 / 0.0)"
	case f == 0 && math.Signbit(f):
		return "negzero()"
	case f == 0:
		return "0.0"
	}
	frac, exp := math.Frexp(math.Abs(f))
	m := uint64(frac * (1 << 53))
	e := exp - 53
	for m&1 == 0 {
		m >>= 1
		e++
	}
	src := fmt.Sprintf("%d.to_float", m)
	if f < 0 {
		src = fmt.Sprintf("(0 - %d).to_float", m)
	}
	if e != 0 {
		// 2.0 ** e is exact; for e < -1022 split so that every factor is a normal number or the product is exact
		if e < -1000 {
			return fmt.Sprintf("(%s * 2.0 ** (%d) * 2.0 ** (%d))", src, e+1000, -1000)
		}
		src = fmt.Sprintf("(%s * 2.0 ** (%d))", src, e)
	}
	return src
}

func (s Spec) big() *big.Int {
	b, _ := new(big.Int).SetString(s.S, 10)
	return b
}

func bytesSrc(b []byte) string {
	var sb strings.Builder
	sb.WriteByte('"')
	for _, c := range b {
		fmt.Fprintf(&sb, "\\x%02x", c)
	}
	sb.WriteByte('"')
	return sb.String()
}

// Src renders Elk source that builds the value.
func (s Spec) Src() string {
	switch s.K {
	case "int":
		return intSrc(s.big())
	case "i8", "i16", "i32", "i64", "u8", "u16", "u32", "u64":
		return "(" + intSrc(s.big()) + ").to_" + map[string]string{"i8": "int8", "i16": "int16", "i32": "int32", "i64": "int64", "u8": "uint8", "u16": "uint16", "u32": "uint32", "u64": "uint64"}[s.K]
	case "uint":
		return fmt.Sprintf("0x%xu", s.big())
	case "float":
		return floatSrc(s.f64())
	case "f64":
		return "(" + floatSrc(s.f64()) + ").to_float64"
	case "f32":
		return "(" + floatSrc(float64(s.f32())) + ").to_float32"
	case "bigfloat":
		f := s.f64()
		var src string
		switch {
		case math.IsNaN(f):
			src = "BigFloat::NAN"
		case math.IsInf(f, 1):
			src = "BigFloat::INF"
		case math.IsInf(f, -1):
			src = "BigFloat::NEG_INF"
		default:
			src = "(1bf * " + floatSrc(f) + ")"
		}
		if s.P > 0 {
			src += fmt.Sprintf(".set_precision(%d)", s.P)
		}
		return src
	case "bigdec":
		if s.S == "0" {
			return "0.0bf" // `0bf` lexes as a binary literal prefix
		}
		return s.S + "bf"
	case "str":
		return bytesSrc(s.B)
	case "sym":
		return bytesSrc(s.B) + ".to_symbol"
	case "char":
		n, _ := strconv.Atoi(s.S)
		return fmt.Sprintf("`\\U%08X`", n)
	case "bool":
		return s.S
	case "nil":
		return "nil"
	case "regex":
		src := "%/" + string(s.B)
		if len(s.E) > 0 {
			src += "${" + s.E[0].Src() + "}"
		}
		return src + "/" + s.S
	case "range":
		switch s.S[0] {
		case 'b':
			return "(" + s.S[1:] + "(" + s.E[0].Src() + "))"
		case 'e':
			return "((" + s.E[0].Src() + ")" + s.S[1:] + ")"
		}
		return "((" + s.E[0].Src() + ")" + s.S + "(" + s.E[1].Src() + "))"
	case "list", "tuple", "set":
		var parts []string
		for _, e := range s.E {
			parts = append(parts, e.Src())
		}
		return map[string]string{"list": "[", "tuple": "%[", "set": "^["}[s.K] + strings.Join(parts, ", ") + "]"
	case "map", "record":
		var parts []string
		for i := 0; i+1 < len(s.E); i += 2 {
			parts = append(parts, s.E[i].Src()+" => "+s.E[i+1].Src())
		}
		return map[string]string{"map": "{", "record": "%{"}[s.K] + strings.Join(parts, ", ") + "}"
	}
	panic("c19: unknown kind " + s.K)
}

// ---------------------------------------------------------------- Go-level value (scalars, ranges, lists, tuples) for the Inspect() cross-check

func (s Spec) goValue() (v value.Value, ok bool) {
	switch s.K {
	case "int", "i8", "i16", "i32", "i64", "u8", "u16", "u32", "u64", "uint", "bool", "nil", "float", "f64", "f32":
		return vgen.Build(vgen.VSpec{K: s.K, S: s.S}), true
	case "str":
		return value.Ref(value.String(s.B)), true
	case "sym":
		return value.ToSymbol(string(s.B)).ToValue(), true
	case "char":
		return vgen.Build(vgen.VSpec{K: "char", S: s.S}), true
	case "bigfloat":
		f := s.f64()
		var bf *value.BigFloat
		switch {
		case math.IsNaN(f):
			bf = value.BigFloatNaN()
		case math.IsInf(f, 1):
			bf = value.BigFloatInf()
		case math.IsInf(f, -1):
			bf = value.BigFloatNegInf()
		default:
			bf = value.NewBigFloat(f)
			bf.SetPrecision(53)
		}
		if s.P > 0 {
			if math.IsNaN(f) {
				return value.Undefined, false
			}
			bf = bf.SetPrecision(uint(s.P))
		}
		return value.Ref(bf), true
	case "range":
		var e []value.Value
		for _, x := range s.E {
			v, ok := x.goValue()
			if !ok {
				return value.Undefined, false
			}
			e = append(e, v)
		}
		switch s.S {
		case "...":
			return value.Ref(value.NewClosedRange(e[0], e[1])), true
		case "<.<":
			return value.Ref(value.NewOpenRange(e[0], e[1])), true
		case "<..":
			return value.Ref(value.NewLeftOpenRange(e[0], e[1])), true
		case "..<":
			return value.Ref(value.NewRightOpenRange(e[0], e[1])), true
		case "b...":
			return value.Ref(value.NewBeginlessClosedRange(e[0])), true
		case "b..<":
			return value.Ref(value.NewBeginlessOpenRange(e[0])), true
		case "e...":
			return value.Ref(value.NewEndlessClosedRange(e[0])), true
		case "e<..":
			return value.Ref(value.NewEndlessOpenRange(e[0])), true
		}
	case "tuple":
		l := value.NewArrayTupleOfValue(len(s.E))
		for _, x := range s.E {
			v, ok := x.goValue()
			if !ok {
				return value.Undefined, false
			}
			l.Append(v)
		}
		return value.Ref(l), true
	}
	return value.Undefined, false
}
