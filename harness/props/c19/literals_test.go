package c19

import (
	"fmt"
	"math/big"
	"strings"
	"testing"

	"pgregory.net/rapid"

	"verif/internal/pbt"
	sb "verif/internal/sandbox"
	"verif/internal/vgen"
)

// Lit is one integer literal: magnitude, base, notation details, optional sized suffix.
type Lit struct {
	Mag    string `json:"mag"`              // decimal magnitude
	Base   int    `json:"base"`             // 2 4 8 10 12 16
	Suffix string `json:"suffix,omitempty"` // "" i8 i16 i32 i64 u8 u16 u32 u64 u
	Upper  bool   `json:"upper,omitempty"`  // upper-case prefix letter and digits
	Seps   []int  `json:"seps,omitempty"`   // a `_` after the n-th digit (strictly between digits)
	Zeros  int    `json:"zeros,omitempty"`  // leading zeros (prefixed bases only)
	Neg    bool   `json:"neg,omitempty"`    // unary minus in front (signed kinds and Int)
}

type LitBatch struct {
	Lits []Lit `json:"lits"`
}

var litBases = []int{10, 16, 12, 8, 4, 2}
var litPrefix = map[int]string{10: "", 16: "0x", 12: "0d", 8: "0o", 4: "0q", 2: "0b"}
var litSuffixes = []string{"", "", "", "i8", "i16", "i32", "i64", "u8", "u16", "u32", "u64", "u"}
var suffixKind = map[string]string{"i8": "i8", "i16": "i16", "i32": "i32", "i64": "i64", "u8": "u8", "u16": "u16", "u32": "u32", "u64": "u64", "u": "uint"}

func (l Lit) mag() *big.Int { b, _ := new(big.Int).SetString(l.Mag, 10); return b }

func (l Lit) digits() string {
	d := l.mag().Text(l.Base)
	if l.Upper {
		d = strings.ToUpper(d)
	}
	return strings.Repeat("0", l.Zeros) + d
}

// text renders the literal as written in source (without the sign).
func (l Lit) text() string {
	d := l.digits()
	var sb strings.Builder
	for i := 0; i < len(d); i++ {
		sb.WriteByte(d[i])
		for _, p := range l.Seps {
			if p == i+1 && i+1 < len(d) {
				sb.WriteByte('_')
				break
			}
		}
	}
	p := litPrefix[l.Base]
	if l.Upper {
		p = strings.ToUpper(p)
	}
	return p + sb.String() + l.Suffix
}

func (l Lit) value() *big.Int {
	if l.Neg {
		return new(big.Int).Neg(l.mag())
	}
	return l.mag()
}

func genLit(t *rapid.T, label string) Lit {
	l := Lit{Base: litBases[vgen.Pick(t, len(litBases), label+"_base")], Suffix: litSuffixes[vgen.Pick(t, len(litSuffixes), label+"_suf")]}
	var m *big.Int
	if l.Suffix == "" {
		m = new(big.Int).Abs(vgen.BigInt(t, label))
		l.Neg = rapid.Bool().Draw(t, label+"_neg")
	} else {
		k := suffixKind[l.Suffix]
		m = vgen.FixedInt(t, k, label)
		if m.Sign() < 0 {
			// the literal itself is never negative; -x is the unary minus applied to the literal x
			m = new(big.Int).Neg(m)
			_, hi := vgen.KindRange(k)
			if m.Cmp(hi) > 0 {
				m = hi
			}
			l.Neg = true
		}
	}
	l.Mag = m.String()
	l.Upper = rapid.Bool().Draw(t, label+"_up")
	if l.Base != 10 {
		l.Zeros = rapid.IntRange(0, 2).Draw(t, label+"_z")
	}
	n := len(l.digits())
	for i := rapid.IntRange(0, 3).Draw(t, label+"_ns"); i > 0 && n > 1; i-- {
		l.Seps = append(l.Seps, rapid.IntRange(1, n-1).Draw(t, label+"_sep"))
	}
	return l
}

func genLitBatch(t *rapid.T) LitBatch {
	n := 16 + vgen.Pick(t, 33, "n")
	var b LitBatch
	for i := 0; i < n; i++ {
		b.Lits = append(b.Lits, genLit(t, fmt.Sprintf("l%d", i)))
	}
	return b
}

// decSrc builds n from decimal chunks < 10^9 (independent of the notation under test).
func decSrc(n *big.Int) string {
	a := new(big.Int).Abs(n)
	base := big.NewInt(1000000000)
	var chunks []string
	for a.Sign() > 0 {
		q, r := new(big.Int).QuoRem(a, base, new(big.Int))
		chunks = append(chunks, r.String())
		a = q
	}
	if len(chunks) == 0 {
		return "0"
	}
	src := chunks[len(chunks)-1]
	for i := len(chunks) - 2; i >= 0; i-- {
		src = "(" + src + " * 1000000000 + " + chunks[i] + ")"
	}
	if n.Sign() < 0 {
		return "(0 - " + src + ")"
	}
	return src
}

const litPrelude = prelude + `def ti(s: String, base: Int): String
  do
    s.to_int(base).inspect
  catch FormatError() as e
    "ERR"
  end
end
`

var toMethod = map[string]string{"i8": "to_int8", "i16": "to_int16", "i32": "to_int32", "i64": "to_int64", "u8": "to_uint8", "u16": "to_uint16", "u32": "to_uint32", "u64": "to_uint64"}

func litOracle(c LitBatch, ctx *pbt.Ctx) error {
	idxs := make([]int, len(c.Lits))
	for i := range idxs {
		idxs[i] = i
	}
	inconclusive := false
	lines, fails := map[int][]string{}, map[int]string{}
	runBisect(idxs, func(ix []int) string {
		var p strings.Builder
		p.WriteString(litPrelude)
		for _, i := range ix {
			l := c.Lits[i]
			lit := l.text()
			if l.Neg {
				lit = "-" + lit
			}
			orig := decSrc(l.value())
			if m, ok := toMethod[l.Suffix]; ok {
				orig = "(" + orig + ")." + m
			} else if l.Suffix == "u" {
				orig = "a" // no Int -> UInt conversion at run time: the decimal rendering is the check
			}
			sign := ""
			if l.Neg {
				sign = "-"
			}
			// String#to_int: explicit base with bare digits; base 0 with the documented prefixes (0x 0d 0o 0b) or plain decimal
			auto := `"h"`
			if l.Base != 4 {
				p0 := litPrefix[l.Base]
				if l.Upper {
					p0 = strings.ToUpper(p0)
				}
				auto = fmt.Sprintf("hx(ti(%q, 0))", sign+p0+l.digits())
			}
			fmt.Fprintf(&p, "do\n  a := %s\n  b := %s\n  println(\"@%d \" + hx(a.inspect) + \" \" + a.class.name + \" \" + tf(a == b) + \" \" + hx(ti(%q, %d)) + \" \" + %s)\nend\n",
				lit, orig, i, sign+l.digits(), l.Base, auto)
		}
		return p.String()
	}, lines, fails, &inconclusive)
	if inconclusive {
		pbt.Inconclusive()
		return nil
	}
	var key strings.Builder
	for _, i := range idxs {
		l := c.Lits[i]
		lit := l.text()
		if l.Neg {
			lit = "-" + lit
		}
		where := fmt.Sprintf("literal %d `%s` (value %s)", i, lit, l.value())
		kind := "int"
		if l.Suffix != "" {
			kind = suffixKind[l.Suffix]
		}
		ctx.Label(fmt.Sprintf("base:%d", l.Base))
		ctx.Label("kind:" + kind)
		ctx.Label("literals")
		if kind != "int" && kind != "uint" && l.Neg {
			if lo, _ := vgen.KindRange(kind); l.value().Cmp(lo) == 0 {
				// cannot happen by construction (magnitude is clamped to max), kept as a guard
				continue
			}
		}
		if f, bad := fails[i]; bad {
			return fmt.Errorf("%s does not evaluate: %s", where, f)
		}
		f := lines[i]
		if len(f) != 5 {
			return fmt.Errorf("%s: malformed result line %v", where, f)
		}
		insp, _ := unhx(f[0])
		want := l.value().String()
		if l.Suffix != "" {
			want += l.Suffix
		}
		if string(insp) != want {
			return fmt.Errorf("%s evaluates to %s, written value %s", where, insp, want)
		}
		if cls := (Spec{K: kind}).class(); f[1] != cls {
			return fmt.Errorf("%s is an instance of %s, want %s", where, f[1], cls)
		}
		if f[2] != "T" {
			return fmt.Errorf("%s is not == to the same number built arithmetically from decimal chunks", where)
		}
		ti, _ := unhx(f[3])
		if string(ti) != l.value().String() {
			return fmt.Errorf("%s: %q.to_int(%d) is %s, want %s", where, map[bool]string{true: "-", false: ""}[l.Neg]+l.digits(), l.Base, ti, l.value())
		}
		if l.Base != 4 {
			ta, _ := unhx(f[4])
			if string(ta) != l.value().String() {
				return fmt.Errorf("%s: to_int with base 0 of the prefixed digits is %s, want %s", where, ta, l.value())
			}
		}
		if l.Base != 10 || len(l.Seps) > 0 || l.Suffix != "" {
			fmt.Fprintf(&key, "%s;", lit)
		}
	}
	if key.Len() > 0 {
		ctx.NonTrivial(key.String())
	}
	return nil
}

func TestIntLiterals(t *testing.T) {
	pbt.Rule("int_literals", "batches of 16..48 integer literals: boundary-biased magnitudes (2^k +- d, multi-limb) in base 2/4/8/10/12/16 with lower/upper-case prefix and digits, leading zeros, `_` separators between digits, every sized suffix (magnitude within the kind's range) and unary minus; a worker program prints each literal's inspect (compared with math/big's decimal + suffix), class, == against the number built from decimal chunks < 10^9, and String#to_int of the digits with the explicit base and with base 0 + documented prefix; non-trivial literal = non-decimal base, separators or a suffix; distinct by the literal texts")
	worker = sb.New("debug")
	defer worker.Close()
	pbt.Run(t, pbt.Prop[LitBatch]{Name: "int_literals", Quick: 320, Thorough: 12000, Gen: genLitBatch, Oracle: litOracle,
		Minimize: func(c LitBatch) LitBatch {
			for _, l := range c.Lits {
				one := LitBatch{Lits: []Lit{l}}
				if litOracle(one, &pbt.Ctx{}) != nil {
					return one
				}
			}
			return c
		},
		Sample: func(c LitBatch) any {
			var s []string
			for i, l := range c.Lits {
				if i < 8 {
					s = append(s, l.text())
				}
			}
			return map[string]any{"n": len(c.Lits), "first": s}
		}})
}
