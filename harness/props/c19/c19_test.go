package c19

import (
	"bytes"
	"fmt"
	"math"
	"math/big"
	"strconv"
	"strings"
	"testing"
	"time"
	"unicode"
	"unicode/utf8"

	"github.com/elk-language/elk"
	"github.com/elk-language/elk/env"
	"pgregory.net/rapid"

	"verif/internal/pbt"
	sb "verif/internal/sandbox"
	"verif/internal/vgen"
)

func TestMain(m *testing.M) {
	if env.ELKPATH == "" {
		env.ELKPATH = "/repo"
	}
	elk.InitGlobalEnvironment()
	pbt.Main(m, "C19")
}

var worker *sb.Worker

// prelude of every generated program: lossless renderings (the worker only returns text)
const prelude = `def hx(s: String): String
  r := "h"
  for b in s.byte_iter
    r = r + b.to_int.to_string + "."
  end
  r
end
def tf(b: bool): String
  return "T" if b
  "F"
end
def negzero: Float
  z := 0.0
  -z
end
`

func unhx(s string) ([]byte, bool) {
	if !strings.HasPrefix(s, "h") {
		return nil, false
	}
	var out []byte
	for _, p := range strings.Split(s[1:], ".") {
		if p == "" {
			continue
		}
		n, err := strconv.Atoi(p)
		if err != nil || n < 0 || n > 255 {
			return nil, false
		}
		out = append(out, byte(n))
	}
	return out, true
}

// runBisect runs mk(idxs) in the worker.  Every element prints one line "@<idx> f1 f2 ...".
// If the program as a whole fails (rejected, Elk error, crash) or a line is missing, the
// batch is split until the offending single elements are isolated.
func runBisect(idxs []int, mk func([]int) string, lines map[int][]string, fails map[int]string, inconclusive *bool) {
	if len(idxs) == 0 {
		return
	}
	src := mk(idxs)
	res := worker.Do(sb.Req{Mode: "run", Source: src}, 60*time.Second)
	class, detail := sb.Classify(res)
	if class == sb.Timeout {
		*inconclusive = true
		return
	}
	got := map[int][]string{}
	if len(res.Resp.Runs) > 0 {
		for _, ln := range strings.Split(res.Resp.Runs[0].Stdout, "\n") {
			if !strings.HasPrefix(ln, "@") {
				continue
			}
			f := strings.Split(ln[1:], " ")
			if n, err := strconv.Atoi(f[0]); err == nil {
				got[n] = f[1:]
			}
		}
	}
	complete := class == sb.OK
	for _, i := range idxs {
		if _, ok := got[i]; !ok {
			complete = false
		}
	}
	if complete {
		for _, i := range idxs {
			lines[i] = got[i]
		}
		return
	}
	if len(idxs) == 1 {
		msg := class + ": " + detail
		if class == sb.Rejected {
			var ds []string
			for _, d := range res.Resp.Runs[0].Diags {
				if d.Severity == "FAIL" {
					ds = append(ds, fmt.Sprintf("%d:%d %s", d.Line, d.Col, d.Msg))
				}
			}
			msg = "rejected by the compiler: " + strings.Join(ds, " | ")
		} else if class == sb.OK {
			msg = "no output line"
		}
		fails[idxs[0]] = clip(msg, 1200)
		return
	}
	h := len(idxs) / 2
	runBisect(idxs[:h], mk, lines, fails, inconclusive)
	runBisect(idxs[h:], mk, lines, fails, inconclusive)
}

func clip(s string, n int) string {
	if len(s) > n {
		return s[:n] + "…"
	}
	return s
}

type Batch struct {
	Vals []Spec `json:"vals"`
}

func genBatch(t *rapid.T) Batch {
	n := 8 + vgen.Pick(t, 25, "n")
	var b Batch
	for i := 0; i < n; i++ {
		b.Vals = append(b.Vals, genValue(t, fmt.Sprintf("v%d", i), 2))
	}
	return b
}

// known findings (input-side predicates on single values, see knownFor)
const (
	kBigFloatPrec     = "bigfloat-inspect-drops-precision"
	kBigFloatBoundary = "bigfloat-shortest-decimal-boundary"
	kSymUnderscore    = "symbol-underscore-caseless-letter"
	kRegexSlash       = "regex-source-with-slash"
	kRegexNewline     = "regex-newline-reindented-in-collection"
	kSignedMin        = "signed-min-literal-overflows"
)

// digitChars counts the digit characters before the exponent, leading zeros included:
// this is what the implementation derives a BigFloat literal's precision from.
func digitChars(txt string) int {
	n := 0
	for _, c := range txt {
		if c == 'e' || c == 'E' || c == 'p' {
			break
		}
		if c >= '0' && c <= '9' {
			n++
		}
	}
	return n
}

// bigFloatKnown models, with math/big only, whether a 53-bit BigFloat x can come back from its
// shortest decimal: "" if it must, otherwise the key of the recorded finding that applies.
func bigFloatKnown(x *big.Float) string {
	txt := x.Text('g', -1)
	if digitChars(txt) > 15 {
		return kBigFloatPrec // the literal would get more than 53 bits
	}
	if y, _, err := big.ParseFloat(txt, 10, 53, big.ToNearestEven); err != nil || x.Cmp(y) != 0 {
		return kBigFloatBoundary // math/big's shortest decimal is not unique just below a power of two
	}
	return ""
}

// knownFor returns the key of the recorded finding this value falls under ("" if none).
func knownFor(s Spec, nested bool) string {
	switch s.K {
	case "bigfloat":
		f := s.f64()
		if math.IsNaN(f) || math.IsInf(f, 0) || f == 0 {
			break
		}
		// the literal's precision is derived from its digit count (53 bits up to 15 digit characters)
		if s.P != 0 && s.P != 53 {
			return kBigFloatPrec
		}
		if k := bigFloatKnown(new(big.Float).SetPrec(53).SetFloat64(f)); k != "" {
			return k
		}
	case "bigdec":
		if digitChars(s.S) > 15 {
			return kBigFloatPrec
		}
		if x, _, err := big.ParseFloat(s.S, 10, 53, big.ToNearestEven); err == nil && x.Sign() != 0 {
			if k := bigFloatKnown(x); k != "" {
				return k
			}
		}
	case "sym":
		// `:_X` is lexed as a private identifier, which must continue with a cased letter
		if len(s.B) > 1 && s.B[0] == '_' {
			if r, _ := utf8.DecodeRune(s.B[1:]); unicode.IsLetter(r) && !unicode.IsUpper(r) && !unicode.IsLower(r) {
				return kSymUnderscore
			}
		}
	case "regex":
		if len(s.E) > 0 && bytes.Contains(s.E[0].B, []byte("/")) {
			return kRegexSlash
		}
		if nested && (bytes.Contains(s.B, []byte("\n")) || len(s.E) > 0 && bytes.Contains(s.E[0].B, []byte("\n"))) {
			return kRegexNewline
		}
	case "i8", "i16", "i32", "i64":
		lo, _ := vgen.KindRange(s.K)
		if s.big().Cmp(lo) == 0 {
			return kSignedMin
		}
	}
	for _, e := range s.E {
		if k := knownFor(e, nested || s.K != "range"); k != "" {
			return k
		}
	}
	return ""
}

func descExpr(s Spec, v string) string {
	switch s.K {
	case "str":
		return "hx(" + v + ")"
	case "sym", "char":
		return "hx(" + v + ".to_string)"
	}
	return `"h"`
}

func roundTripOracle(c Batch, ctx *pbt.Ctx) error {
	n := len(c.Vals)
	idxs := make([]int, n)
	for i := range idxs {
		idxs[i] = i
	}
	inconclusive := false
	// phase 1: construct every value, print the bytes of its inspect text
	l1, f1 := map[int][]string{}, map[int]string{}
	runBisect(idxs, func(ix []int) string {
		var p strings.Builder
		p.WriteString(prelude)
		for _, i := range ix {
			fmt.Fprintf(&p, "do\n  b := %s\n  println(\"@%d \" + hx(b.inspect))\nend\n", c.Vals[i].Src(), i)
		}
		return p.String()
	}, l1, f1, &inconclusive)
	texts := map[int]string{}
	var ok1 []int
	for _, i := range idxs {
		if f, bad := f1[i]; bad {
			if !inconclusive {
				return fmt.Errorf("element %d %v: constructing the value and calling inspect failed: %s\nsource: %s", i, c.Vals[i], f, c.Vals[i].Src())
			}
			continue
		}
		if l, ok := l1[i]; ok && len(l) == 1 {
			if b, ok := unhx(l[0]); ok {
				texts[i] = string(b)
				ok1 = append(ok1, i)
			}
		}
	}
	// phase 2: evaluate the inspect text as an expression statement, compare with the original
	l2, f2 := map[int][]string{}, map[int]string{}
	runBisect(ok1, func(ix []int) string {
		var p strings.Builder
		p.WriteString(prelude)
		for _, i := range ix {
			fmt.Fprintf(&p, "do\n  a := do\n%s\n  end\n  b := %s\n  println(\"@%d \" + tf(a == b) + \" \" + tf(a == a) + \" \" + a.class.name + \" \" + hx(a.inspect) + \" \" + %s)\nend\n",
				texts[i], c.Vals[i].Src(), i, descExpr(c.Vals[i], "a"))
		}
		return p.String()
	}, l2, f2, &inconclusive)
	if inconclusive {
		pbt.Inconclusive()
		return nil
	}
	nt := false
	var key strings.Builder
	for _, i := range ok1 {
		s := c.Vals[i]
		text := texts[i]
		ctx.Label("kind:" + s.K)
		if s.K == "range" {
			ctx.Label("range:" + s.S)
		}
		ctx.Label("values")
		if s.nonTrivial() {
			nt = true
			ctx.Label("values_nontrivial")
			fmt.Fprintf(&key, "%v;", s)
		}
		where := fmt.Sprintf("element %d %v: inspect text %q", i, s, text)
		if k := knownFor(s, false); k != "" && pbt.KnownActive(k) {
			ctx.Excluded(k)
			continue
		}
		if gv, ok := s.goValue(); ok {
			if g := gv.Inspect(); g != text {
				return fmt.Errorf("%s: the Go-level Inspect() of the same value is %q", where, g)
			}
			ctx.Label("go_inspect_compared")
		}
		if f, bad := f2[i]; bad {
			return fmt.Errorf("%s does not evaluate: %s", where, f)
		}
		l := l2[i]
		if len(l) != 5 {
			return fmt.Errorf("%s: malformed result line %v", where, l)
		}
		eqab, eqaa, class := l[0], l[1], l[2]
		itext, _ := unhx(l[3])
		desc, _ := unhx(l[4])
		if class != s.class() {
			return fmt.Errorf("%s evaluates to an instance of %s, the original is a %s (re-inspected: %q)", where, class, s.class(), itext)
		}
		if s.containsNaN() {
			ctx.Label("nan")
			if len(s.E) == 0 && eqaa != "F" {
				return fmt.Errorf("%s: the original is NaN, the evaluated text is == to itself (re-inspected: %q)", where, itext)
			}
		} else if eqab != "T" {
			return fmt.Errorf("%s evaluates to a value that is not == to the original (re-inspected: %q)", where, itext)
		}
		if !s.containsKind("list", "set", "map", "record") && !s.containsNegZero() {
			// no capacity suffix, no iteration order, no sign-of-zero folding: the text must be a fixed point
			if string(itext) != text {
				return fmt.Errorf("%s evaluates to a value whose inspect is %q", where, itext)
			}
			ctx.Label("fixpoint_checked")
		}
		switch s.K {
		case "str", "sym":
			if !bytes.Equal(desc, s.B) {
				return fmt.Errorf("%s evaluates to the bytes %v, the original has %v", where, desc, s.B)
			}
		case "char":
			cp, _ := strconv.Atoi(s.S)
			if string(desc) != string(utf8.AppendRune(nil, rune(cp))) {
				return fmt.Errorf("%s evaluates to a char with the bytes %v, the original is U+%04X", where, desc, cp)
			}
		}
	}
	if nt {
		ctx.NonTrivial(key.String())
	}
	return nil
}

// minimizeBatch keeps a single failing element if one fails on its own.
func minimizeBatch(c Batch) Batch {
	for _, v := range c.Vals {
		one := Batch{Vals: []Spec{v}}
		if roundTripOracle(one, &pbt.Ctx{}) != nil {
			return minimizeSpec(one)
		}
	}
	return c
}

// minimizeSpec descends into collection elements while the failure persists.
func minimizeSpec(c Batch) Batch {
	for changed := true; changed; {
		changed = false
		for _, e := range c.Vals[0].E {
			one := Batch{Vals: []Spec{e}}
			if roundTripOracle(one, &pbt.Ctx{}) != nil {
				c, changed = one, true
				break
			}
		}
	}
	return c
}

func TestInspectRoundTrip(t *testing.T) {
	pbt.Rule("inspect_roundtrip", "batches of 8..32 values of every literal-expressible kind (Int small/big, Float incl. extremes/NaN/Inf/-0, Float64/32, BigFloat at several precisions and from long decimal literals, fixed-width ints, String/Symbol incl. control chars, C1 controls, format chars, invalid UTF-8, $ # \" \\, Char, Bool, nil, Regex incl. interpolated source, the 8 range kinds, lists/tuples/sets/maps/records nested <= 2) are constructed in a worker program WITHOUT inspect's notation (hex chunks, mantissa*2**e, \\xNN bytes); program 1 prints the bytes of v.inspect; program 2 evaluates that text as an expression statement and prints (evaluated == original), class name, bytes of the re-inspect and of the string content; failing batches are bisected to the offending element. Non-trivial value = contains a char outside printable ASCII, a float that is not a short decimal, or nesting >= 2; a batch is non-trivial if it contains one; distinct by the non-trivial values")
	worker = sb.New("debug")
	defer worker.Close()
	pbt.Run(t, pbt.Prop[Batch]{Name: "inspect_roundtrip", Quick: 640, Thorough: 24000, Gen: genBatch, Oracle: roundTripOracle, Minimize: minimizeBatch,
		Sample: func(c Batch) any {
			var s []string
			for i, v := range c.Vals {
				if i < 6 {
					s = append(s, v.String())
				}
			}
			return map[string]any{"n": len(c.Vals), "first": s}
		}})
}
