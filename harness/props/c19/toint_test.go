package c19

import (
	"fmt"
	"math/big"
	"strings"
	"testing"

	"pgregory.net/rapid"

	"verif/internal/pbt"
	sb "verif/internal/sandbox"
	"verif/internal/vgen"
)

// String#to_int with every base 2..36: the written digits denote exactly one integer (math/big is the model).

type ToInt struct {
	Digits string `json:"digits"` // may contain single `_` between digits
	Base   int    `json:"base"`
	Neg    bool   `json:"neg,omitempty"`
}

type ToIntBatch struct {
	Items []ToInt `json:"items"`
}

func (x ToInt) value() *big.Int {
	v, _ := new(big.Int).SetString(strings.ToLower(strings.ReplaceAll(x.Digits, "_", "")), x.Base)
	if x.Neg {
		v.Neg(v)
	}
	return v
}

const digitAlphabet = "0123456789abcdefghijklmnopqrstuvwxyz"

func genToInt(t *rapid.T, label string) ToInt {
	base := 2 + vgen.Pick(t, 35, label+"b")
	if vgen.Pick(t, 3, label+"hb") == 0 {
		base = []int{17, 20, 32, 35, 36, 36}[vgen.Pick(t, 6, label+"hbv")]
	}
	// lengths around the sizes where a machine word stops being enough for the base
	n := 1 + vgen.Pick(t, 40, label+"n")
	if vgen.Pick(t, 2, label+"nb") == 0 {
		n = 10 + vgen.Pick(t, 12, label+"nw")
	}
	mode := vgen.Pick(t, 4, label+"m") // 0: random, 1: all max digit, 2: 1 followed by zeros, 3: random with a max-digit head
	var b strings.Builder
	for i := 0; i < n; i++ {
		d := vgen.Pick(t, base, fmt.Sprintf("%sd%d", label, i))
		switch {
		case mode == 1, mode == 3 && i < n/2:
			d = base - 1
		case mode == 2 && i == 0:
			d = 1
		case mode == 2:
			d = 0
		}
		ch := digitAlphabet[d : d+1]
		if d >= 10 && vgen.Pick(t, 4, fmt.Sprintf("%su%d", label, i)) == 0 {
			ch = strings.ToUpper(ch)
		}
		if i > 0 && vgen.Pick(t, 12, fmt.Sprintf("%ss%d", label, i)) == 0 {
			b.WriteByte('_')
		}
		b.WriteString(ch)
	}
	return ToInt{Digits: b.String(), Base: base, Neg: vgen.Pick(t, 4, label+"neg") == 0}
}

func genToIntBatch(t *rapid.T) ToIntBatch {
	n := 16 + vgen.Pick(t, 33, "n")
	var b ToIntBatch
	for i := 0; i < n; i++ {
		b.Items = append(b.Items, genToInt(t, fmt.Sprintf("x%d", i)))
	}
	return b
}

func toIntOracle(c ToIntBatch, ctx *pbt.Ctx) error {
	idxs := make([]int, len(c.Items))
	for i := range idxs {
		idxs[i] = i
	}
	inconclusive := false
	lines, fails := map[int][]string{}, map[int]string{}
	runBisect(idxs, func(ix []int) string {
		var p strings.Builder
		p.WriteString(litPrelude)
		for _, i := range ix {
			x := c.Items[i]
			s := x.Digits
			if x.Neg {
				s = "-" + s
			}
			fmt.Fprintf(&p, "println(\"@%d \" + hx(ti(%q, %d)))\n", i, s, x.Base)
		}
		return p.String()
	}, lines, fails, &inconclusive)
	if inconclusive {
		pbt.Inconclusive()
		return nil
	}
	var key strings.Builder
	two64 := new(big.Int).Lsh(big.NewInt(1), 64)
	for i, x := range c.Items {
		where := fmt.Sprintf("item %d %q.to_int(%d)", i, map[bool]string{true: "-", false: ""}[x.Neg]+x.Digits, x.Base)
		if f, bad := fails[i]; bad {
			return fmt.Errorf("%s does not evaluate: %s", where, f)
		}
		f := lines[i]
		if len(f) != 1 {
			return fmt.Errorf("%s: malformed result line %v", where, f)
		}
		got, _ := unhx(f[0])
		want := x.value().String()
		if string(got) != want {
			return fmt.Errorf("%s is %s, the written value is %s", where, got, want)
		}
		ctx.Label(fmt.Sprintf("base_class:%s", map[bool]string{true: ">16", false: "<=16"}[x.Base > 16]))
		if new(big.Int).Abs(x.value()).Cmp(two64) >= 0 {
			ctx.Label("magnitude>=2^64")
			if len(strings.ReplaceAll(x.Digits, "_", "")) <= 16 {
				ctx.Label("magnitude>=2^64_in_<=16_digits")
			}
		}
		if x.Base != 10 {
			fmt.Fprintf(&key, "%d:%s;", x.Base, x.Digits)
		}
	}
	if key.Len() > 0 {
		ctx.NonTrivial(key.String())
	}
	return nil
}

func TestToIntBases(t *testing.T) {
	pbt.Rule("to_int_bases", "batches of 16..48 (digit string, base) pairs for String#to_int: every base 2..36 (bases above 16 weighted), 1..40 digits with lengths concentrated where a 64-bit word stops being enough, random / all-maximal / power-of-base digit patterns, mixed letter case, single `_` separators, optional minus; the result's inspect must be the decimal rendering of math/big's value of the digits; non-trivial = a non-decimal base; distinct by the (base, digits) pairs")
	worker = sb.New("debug")
	defer worker.Close()
	pbt.Run(t, pbt.Prop[ToIntBatch]{Name: "to_int_bases", Quick: 160, Thorough: 6000, Gen: genToIntBatch, Oracle: toIntOracle,
		Minimize: func(c ToIntBatch) ToIntBatch {
			for _, x := range c.Items {
				one := ToIntBatch{Items: []ToInt{x}}
				if toIntOracle(one, &pbt.Ctx{}) != nil {
					return one
				}
			}
			return c
		},
		Sample: func(c ToIntBatch) any {
			var s []string
			for i, x := range c.Items {
				if i < 6 {
					s = append(s, fmt.Sprintf("%s@%d", x.Digits, x.Base))
				}
			}
			return map[string]any{"n": len(c.Items), "first": s}
		}})
}

var _ = rapid.Int
