package c03

import (
	"fmt"
	"os"
	"regexp"
	"strings"
	"testing"
	"time"

	"github.com/elk-language/elk/bitfield"
	"github.com/elk-language/elk/lexer"
	"github.com/elk-language/elk/parser"
	"github.com/elk-language/elk/regex"
	rparser "github.com/elk-language/elk/regex/parser"
	"github.com/elk-language/elk/token"
	"pgregory.net/rapid"

	"verif/internal/corpus"
	"verif/internal/pbt"
	sb "verif/internal/sandbox"
	"verif/internal/srcgen"
)

func TestMain(m *testing.M) { pbt.Main(m, "C03") }

type Case struct {
	Src []byte `json:"src"`
}

// tokenPrefix cuts a corpus source at a token boundary: the incomplete inputs a
// user types into the REPL.
func tokenPrefix(t *rapid.T, s string) string {
	toks := lexer.Lex(s)
	if len(toks) < 2 {
		return s
	}
	k := rapid.IntRange(0, len(toks)-1).Draw(t, "cut")
	sp := toks[k].Span()
	if sp == nil || sp.EndPos == nil || sp.EndPos.ByteOffset+1 > len(s) || sp.EndPos.ByteOffset < 0 {
		return s
	}
	return s[:sp.EndPos.ByteOffset+1]
}

// tokenEdit deletes / duplicates / swaps whole tokens.
func tokenEdit(t *rapid.T, s string) string {
	toks := lexer.Lex(s)
	if len(toks) < 3 {
		return s
	}
	i := rapid.IntRange(0, len(toks)-2).Draw(t, "ti")
	a, b := toks[i].Span(), toks[i+1].Span()
	as, ae, bs, be := a.StartPos.ByteOffset, a.EndPos.ByteOffset+1, b.StartPos.ByteOffset, b.EndPos.ByteOffset+1
	if !(0 <= as && as <= ae && ae <= bs && bs <= be && be <= len(s)) {
		return s
	}
	switch rapid.IntRange(0, 3).Draw(t, "te") {
	case 0:
		return s[:as] + s[ae:]
	case 1:
		return s[:ae] + " " + s[as:ae] + s[ae:]
	case 2:
		return s[:as] + s[bs:be] + s[ae:bs] + s[as:ae] + s[be:]
	default:
		return s[:as] + rapid.SampledFrom(srcgen.Fragments).Draw(t, "frag") + s[ae:]
	}
}

func genSource(t *rapid.T, maxLen int) string {
	c := corpus.Elk()
	k := rapid.IntRange(0, 5).Draw(t, "how")
	if len(c) == 0 || k == 0 {
		return srcgen.Source(t)
	}
	s := c[rapid.IntRange(0, len(c)-1).Draw(t, "ci")]
	if len(s) > maxLen {
		s = s[:maxLen]
	}
	switch k {
	case 1:
		return tokenPrefix(t, s)
	case 2:
		return tokenEdit(t, s)
	case 3:
		return srcgen.Mutate(t, s)
	case 4:
		return tokenEdit(t, tokenPrefix(t, s))
	default:
		return s + rapid.SampledFrom(srcgen.Fragments).Draw(t, "tail")
	}
}

func TestParse(t *testing.T) {
	pbt.Rule("parse", "fragment soup, and token-boundary prefixes / token deletions, duplications, swaps / byte mutations of the test-corpus sources -> lexer.Lex + parser.Parse must return (tree, diagnostics) without panic within 60 s; non-trivial = >=2 tokens and not byte-identical to a corpus input")
	corp := map[string]bool{}
	for _, s := range corpus.Elk() {
		corp[s] = true
	}
	pbt.Run(t, pbt.Prop[Case]{
		Name: "parse", Quick: 60000, Thorough: 2000000, HangSeconds: 60,
		Gen: func(t *rapid.T) Case { return Case{[]byte(genSource(t, 1500))} },
		Oracle: func(c Case, ctx *pbt.Ctx) error {
			s := string(c.Src)
			toks := lexer.Lex(s)
			for _, tk := range toks {
				if tk.Type == token.ERROR {
					ctx.Label("lex_error")
					break
				}
			}
			tree, dl := parser.Parse("<main>", s)
			if tree == nil {
				return fmt.Errorf("parser.Parse returned a nil tree")
			}
			if len(dl) == 0 {
				ctx.Label("parses_clean")
			} else {
				ctx.Label("parse_errors")
			}
			if len(toks) >= 2 && !corp[s] {
				ctx.NonTrivial(s)
			}
			return nil
		},
		Sample: func(c Case) any { return string(c.Src) },
	})
}

// --- regex -----------------------------------------------------------------

var reFrags = []string{
	"a", "b", "Z", "0", " ", "\n", "é", "日", "ſ", "K", ".", "^", "$", "|", "(", ")", "(?:", "(?i:", "(?-i:", "(?im-sx:", "(?x:", "(?a:", "(?U:", "(?<n>", "(?P<n>", "(?i)", "(?",
	"*", "+", "?", "*?", "+?", "??", "{2}", "{2,}", "{2,3}", "{,3}", "{", "}", "{a}", "{3,2}", "{99999}",
	"[", "]", "[^", "[a-z]", "[^a-z]", "[z-a]", "[\\w-]", "[\\d\\s]", "[[:alpha:]]", "[[:^digit:]]", "[[:foo:]]", "[]", "[^]", "[a-]", "[-a]", "[\\]]", "-",
	"\\w", "\\W", "\\d", "\\D", "\\s", "\\S", "\\h", "\\H", "\\v", "\\V", "\\b", "\\B", "\\A", "\\z", "\\Z", "\\G", "\\R", "\\X", "\\K", "\\N",
	"\\p{L}", "\\P{L}", "\\pL", "\\PL", "\\p{Greek}", "\\p{^Greek}", "\\p{Foo}", "\\p{", "\\p",
	"\\x41", "\\x{1F600}", "\\x4", "\\x", "\\u00e9", "\\u{e9}", "\\u12", "\\U0001F600", "\\o{101}", "\\101", "\\0", "\\1", "\\k<n>",
	"\\n", "\\t", "\\r", "\\a", "\\e", "\\f", "\\c", "\\cA", "\\.", "\\\\", "\\/", "\\-", "\\", "\\Q", "\\E", "\\Qa.b\\E", "\\ ", "\\#",
	"#", "# comment\n", " # c", "\t", "/", "${", "#{", "(?#c)",
}

type ReCase struct {
	Body  string `json:"body"`
	Flags uint8  `json:"flags"`
}

func TestRegex(t *testing.T) {
	pbt.Rule("regex", "regex bodies from a fragment vocabulary covering every regex AST node kind (plus mutated regex test inputs) x all 64 flag sets -> regex/parser.Parse and regex.Transpile return diagnostics or a pattern, never panic; the transpiled pattern is handed to regexp.Compile (error allowed); non-trivial = >=3 fragments")
	seeds := corpus.ByPkg("regex")
	pbt.Run(t, pbt.Prop[ReCase]{
		Name: "regex", Quick: 60000, Thorough: 2000000, HangSeconds: 60,
		Gen: func(t *rapid.T) ReCase {
			var b strings.Builder
			if len(seeds) > 0 && rapid.IntRange(0, 3).Draw(t, "seeded") == 0 {
				b.WriteString(srcgen.Mutate(t, seeds[rapid.IntRange(0, len(seeds)-1).Draw(t, "si")]))
			}
			n := rapid.IntRange(0, 14).Draw(t, "n")
			for i := 0; i < n; i++ {
				if rapid.IntRange(0, 15).Draw(t, "raw") == 0 {
					b.WriteString(rapid.StringN(0, 3, -1).Draw(t, "s"))
				} else {
					b.WriteString(rapid.SampledFrom(reFrags).Draw(t, "f"))
				}
			}
			return ReCase{b.String(), uint8(rapid.IntRange(0, 63).Draw(t, "flags"))}
		},
		Oracle: func(c ReCase, ctx *pbt.Ctx) error {
			_, dl := rparser.Parse(c.Body)
			if len(dl) > 0 {
				ctx.Label("regex_parse_errors")
			}
			out, dl2 := regex.Transpile(c.Body, bitfield.BitField8FromInt(c.Flags))
			if len(dl2) > 0 {
				ctx.Label("transpile_errors")
			} else {
				if _, err := regexp.Compile(out); err != nil {
					ctx.Label("go_compile_error")
				} else {
					ctx.Label("compiled")
				}
			}
			if len(c.Body) >= 3 {
				ctx.NonTrivial(fmt.Sprintf("%d/%s", c.Flags, c.Body))
			}
			return nil
		},
	})
}

// --- type checker (worker) ----------------------------------------------------

type CkCase struct {
	Inputs      []string `json:"inputs"`
	Incremental bool     `json:"incremental"`
}

var worker *sb.Worker

func TestChecker(t *testing.T) {
	pbt.Rule("checker", "token-boundary prefixes, token edits and byte mutations of test-corpus programs (checker/compiler/vm tests incl. macros and regex literals), one-shot or as an incremental session of 2-4 fragments -> checker.CheckSource in a worker process; a recovered panic, a dead worker (Go fatal) or no answer within 60 s is a violation; non-trivial = input reaches the checker with >=2 tokens and is not a corpus input verbatim")
	worker = sb.New("")
	defer worker.Close()
	pbt.Run(t, pbt.Prop[CkCase]{
		Name: "checker", Quick: 2400, Thorough: 60000,
		Gen: func(t *rapid.T) CkCase {
			n := 1
			inc := rapid.IntRange(0, 3).Draw(t, "inc") == 0
			if inc {
				n = rapid.IntRange(2, 4).Draw(t, "n")
			}
			var in []string
			for i := 0; i < n; i++ {
				in = append(in, genSource(t, 1200))
			}
			return CkCase{in, inc}
		},
		Oracle: checkChecker,
	})
}

func checkChecker(c CkCase, ctx *pbt.Ctx) error {
	req := sb.Req{Mode: "check", Inputs: c.Inputs, Cfg: sb.Cfg{Incremental: c.Incremental}}
	res := worker.Do(req, 60*time.Second)
	if res.TimedOut {
		return fmt.Errorf("type checker did not answer within 60 s (hang); goroutines:\n%s", clip(res.Stderr, 3000))
	}
	if res.Died {
		return fmt.Errorf("type checker killed the process: %s\n%s", res.ExitMsg, clip(res.Stderr, 3000))
	}
	if res.Resp.Err != "" {
		return fmt.Errorf("worker: %s", res.Resp.Err)
	}
	acc := 0
	for i, r := range res.Resp.Runs {
		if r.Panic != "" {
			if os.Getenv("VERIF_COLLECT") != "" { // developer survey mode: histogram of panic signatures
				ctx.Label("PANIC " + panicSig(r.Panic))
				continue
			}
			return fmt.Errorf("type checker panicked on input %d: %s", i, clip(r.Panic, 3000))
		}
		if r.Accepted {
			acc++
		}
	}
	if acc > 0 {
		ctx.Label("accepted")
	} else {
		ctx.Label("rejected")
	}
	if c.Incremental {
		ctx.Label("incremental")
	}
	all := strings.Join(c.Inputs, "\x00")
	if strings.Contains(all, "macro") || strings.Contains(all, "!(") {
		ctx.Label("macro")
	}
	if strings.Contains(all, "%/") {
		ctx.Label("regex_literal")
	}
	if len(all) > 4 {
		ctx.NonTrivial(all)
	}
	return nil
}

// panicSig: panic message + first frame inside the elk module.
func panicSig(p string) string {
	lines := strings.Split(p, "\n")
	sig := clip(lines[0], 80)
	seenPanic := false
	for _, l := range lines {
		if strings.HasPrefix(l, "panic(") {
			seenPanic = true
			continue
		}
		if seenPanic && strings.HasPrefix(l, "github.com/elk-language/elk/") {
			f := strings.TrimPrefix(l, "github.com/elk-language/elk/")
			if i := strings.LastIndex(f, "("); i > 0 {
				f = f[:i]
			}
			return sig + " @ " + clip(f, 70)
		}
	}
	return sig
}

func clip(s string, n int) string {
	if len(s) > n {
		return s[:n]
	}
	return s
}
