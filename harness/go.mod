module verif

go 1.25.0

require (
	github.com/elk-language/elk v0.0.0
	github.com/fatih/color v1.15.0
	github.com/rivo/uniseg v0.4.7
	pgregory.net/rapid v1.3.0
)

require (
	github.com/ALTree/bigfloat v0.2.0 // indirect
	github.com/aymanbagabas/go-osc52/v2 v2.0.1 // indirect
	github.com/bmatcuk/doublestar/v4 v4.8.0 // indirect
	github.com/cespare/xxhash/v2 v2.2.0 // indirect
	github.com/charmbracelet/bubbles v0.21.0 // indirect
	github.com/charmbracelet/bubbletea v1.3.6 // indirect
	github.com/charmbracelet/colorprofile v0.2.3-0.20250311203215-f60798e515dc // indirect
	github.com/charmbracelet/harmonica v0.2.0 // indirect
	github.com/charmbracelet/lipgloss v1.1.0 // indirect
	github.com/charmbracelet/x/ansi v0.9.3 // indirect
	github.com/charmbracelet/x/cellbuf v0.0.13-0.20250311204145-2c3ea96c31dd // indirect
	github.com/charmbracelet/x/term v0.2.1 // indirect
	github.com/elk-language/go-prompt v1.3.1 // indirect
	github.com/google/go-cmp v0.6.0 // indirect
	github.com/lucasb-eyer/go-colorful v1.2.0 // indirect
	github.com/mattn/go-colorable v0.1.14 // indirect
	github.com/mattn/go-isatty v0.0.20 // indirect
	github.com/mattn/go-runewidth v0.0.16 // indirect
	github.com/muesli/ansi v0.0.0-20230316100256-276c6243b2f6 // indirect
	github.com/muesli/cancelreader v0.2.2 // indirect
	github.com/muesli/termenv v0.16.0 // indirect
	github.com/pkg/term v1.2.0-beta.2 // indirect
	github.com/xo/terminfo v0.0.0-20220910002029-abceb7e1c41e // indirect
	golang.org/x/exp v0.0.0-20250305212735-054e65f0b394 // indirect
	golang.org/x/sync v0.20.0 // indirect
	golang.org/x/sys v0.42.0 // indirect
)

replace github.com/elk-language/elk => /repo
