module verif

go 1.25.0

require (
	github.com/elk-language/elk v0.0.0
	github.com/fatih/color v1.15.0
	pgregory.net/rapid v1.3.0
)

require (
	github.com/ALTree/bigfloat v0.2.0 // indirect
	github.com/bmatcuk/doublestar/v4 v4.8.0 // indirect
	github.com/cespare/xxhash/v2 v2.2.0 // indirect
	github.com/elk-language/go-prompt v1.3.1 // indirect
	github.com/google/go-cmp v0.6.0 // indirect
	github.com/mattn/go-colorable v0.1.14 // indirect
	github.com/mattn/go-isatty v0.0.20 // indirect
	github.com/mattn/go-runewidth v0.0.16 // indirect
	github.com/pkg/term v1.2.0-beta.2 // indirect
	github.com/rivo/uniseg v0.4.7 // indirect
	golang.org/x/exp v0.0.0-20250305212735-054e65f0b394 // indirect
	golang.org/x/sys v0.42.0 // indirect
)

replace github.com/elk-language/elk => /repo
