#!/bin/bash
# developer helper: ./run1.sh c04 [extra env...]  — build and run one property package in-process
export GOFLAGS=-mod=mod GOPROXY=off ELKPATH=/repo
p=$1; shift
cd /verif/harness && go build -tags "verif debug" -o /verif/.build/elkworker.debug ./cmd/elkworker && go build -tags verif -o /verif/.build/elkworker ./cmd/elkworker && go test -c -tags verif -o /verif/.build/$p.test ./props/$p || exit 2
cd /verif/.build && env VERIF_EVIDENCE_OUT=/tmp/e_$p.json VERIF_FAIL_DIR=/tmp/fails "$@" timeout -s QUIT ${TMO:-180} ./$p.test -test.v 2>&1 | grep -v "^\s*[a-z_0-9]*\.go:[0-9]*: \[rapid\] draw" | tail -${TAIL:-30}
