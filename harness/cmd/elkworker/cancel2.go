package main

// Mode "cancel2" (property C33): like "cancel", but
//   - optionally waits until the program has printed a start marker before the
//     cancellation delay starts (so "was running when cancelled" does not depend on
//     how fast a loaded machine compiles and schedules the program),
//   - reports what the VM goroutine was doing when the grace period expired
//     (scheduler state + top frames from the goroutine dump) and how much CPU time
//     the process consumed during the grace period (load evidence),
//   - after the main thread stopped, waits for the Elk threads started with `go`
//     to stop as well and reports the ones that linger.
//
// Options travel in Req.Inputs as "key=value" strings (the shared Cfg struct is
// not touched): marker=<text> wait_start_ms=<n> pool=<n> linger_ms=<n>.
// Cfg.CancelMs and Cfg.GraceMs have the same meaning as in "cancel".

import (
	"bytes"
	"context"
	"fmt"
	"regexp"
	"runtime"
	"runtime/debug"
	"strconv"
	"strings"
	"sync"
	"syscall"
	"time"

	"github.com/elk-language/elk/types/checker"
	"github.com/elk-language/elk/value"
	"github.com/elk-language/elk/vm"

	sb "verif/internal/sandbox"
)

func init() { modes["cancel2"] = func(req *sb.Req, max int) []sb.Run { return []sb.Run{cancel2Run(req, max)} } }

// markWriter is a synchronised, capped buffer that signals the first occurrence of a marker.
type markWriter struct {
	mu     sync.Mutex
	buf    bytes.Buffer
	max    int
	marker []byte
	seen   chan struct{}
	done   bool
}

func (w *markWriter) Write(p []byte) (int, error) {
	w.mu.Lock()
	defer w.mu.Unlock()
	if room := w.max - w.buf.Len(); room > 0 {
		if len(p) > room {
			w.buf.Write(p[:room])
		} else {
			w.buf.Write(p)
		}
	}
	if !w.done && len(w.marker) > 0 && bytes.Contains(w.buf.Bytes(), w.marker) {
		w.done = true
		close(w.seen)
	}
	return len(p), nil
}

func (w *markWriter) String() string {
	w.mu.Lock()
	defer w.mu.Unlock()
	return w.buf.String()
}

func cpuMs() int64 {
	var ru syscall.Rusage
	if syscall.Getrusage(syscall.RUSAGE_SELF, &ru) != nil {
		return -1
	}
	return (ru.Utime.Sec+ru.Stime.Sec)*1000 + int64(ru.Utime.Usec+ru.Stime.Usec)/1000
}

var goroutineHead = regexp.MustCompile(`^goroutine (\d+) \[([^\],]+)(?:, [^\]]*)?\]:`)

// goroutineBlocks splits a runtime.Stack(all) dump into its goroutine blocks.
func goroutineBlocks(dump string) []string {
	return strings.Split(strings.TrimSpace(dump), "\n\n")
}

// describe returns the scheduler state and the first function names of a block.
func describeBlock(b string) (state string, frames []string) {
	lines := strings.Split(b, "\n")
	if m := goroutineHead.FindStringSubmatch(lines[0]); m != nil {
		state = m[2]
	}
	for _, l := range lines[1:] {
		if strings.HasPrefix(l, "\t") || strings.HasPrefix(l, "created by") {
			continue
		}
		if i := strings.LastIndexByte(l, '('); i > 0 {
			l = l[:i]
		}
		frames = append(frames, l)
		if len(frames) >= 14 {
			break
		}
	}
	return
}

func dumpAll() string {
	buf := make([]byte, 1<<20)
	n := runtime.Stack(buf, true)
	return string(buf[:n])
}

// c33RunVM is the entry of the goroutine that interprets the program; its name
// identifies the VM goroutine in a dump.
func c33RunVM(th *vm.Thread, fn *vm.BytecodeFunction, done chan<- c33Res) {
	var x c33Res
	defer func() {
		if p := recover(); p != nil {
			x.p = fmt.Sprintf("%v\n%s", p, clip(string(debug.Stack()), 4000))
		}
		done <- x
	}()
	x.v, x.e = th.InterpretREPL(fn)
}

type c33Res struct {
	v, e value.Value
	p    any
}

func elkThreadBlocks(dump string) (blocks []string) {
	for _, b := range goroutineBlocks(dump) {
		if strings.Contains(b, "vm.(*Thread).GoBytecode.func1") || strings.Contains(b, "vm.(*Thread).GoNative.func1") {
			blocks = append(blocks, b)
		}
	}
	return
}

func cancel2Run(req *sb.Req, max int) (r sb.Run) {
	opt := map[string]string{}
	for _, in := range req.Inputs {
		if k, v, ok := strings.Cut(in, "="); ok {
			opt[k] = v
		}
	}
	atoi := func(k string, def int) int {
		if n, err := strconv.Atoi(opt[k]); err == nil {
			return n
		}
		return def
	}
	out := &markWriter{max: max, marker: []byte(opt["marker"]), seen: make(chan struct{})}
	errw := &markWriter{max: max, seen: make(chan struct{})}
	extra := map[string]any{}
	r.Extra = extra
	guard(&r, func() {
		c := checker.New()
		c.SetAdditionalAbortChecks(true)
		c.SetIncremental(true)
		fn, dl := c.CheckSourceBytecode(name(req), req.Source)
		r.Diags = diags(dl)
		r.Accepted = !dl.IsFailure()
		if !r.Accepted || fn == nil {
			return
		}
		// threads that linger from earlier requests of this worker process
		base := len(elkThreadBlocks(dumpAll()))
		ctx, cancel := context.WithCancel(context.Background())
		defer cancel()
		opts := []vm.Option{vm.WithStdout(out), vm.WithStderr(errw)}
		if n := atoi("pool", 0); n > 0 {
			opts = append(opts, vm.WithThreadPool(vm.NewThreadPool(n, 256, vm.WithStdout(out), vm.WithStderr(errw))))
		}
		th := vm.New(opts...)
		th.Aborter = value.NewAborter(ctx, cancel)
		done := make(chan c33Res, 1)
		tStart := time.Now()
		go c33RunVM(th, fn, done)

		early := false
		var res c33Res
		started := false
		if ws := atoi("wait_start_ms", 0); ws > 0 && len(out.marker) > 0 {
			select {
			case <-out.seen:
				started = true
			case res = <-done:
				early = true
			case <-time.After(time.Duration(ws) * time.Millisecond):
			}
			extra["start_wait_ms"] = time.Since(tStart).Milliseconds()
		}
		if !early {
			select {
			case res = <-done:
				early = true
			case <-time.After(time.Duration(req.Cfg.CancelMs) * time.Millisecond):
			}
		}
		select {
		case <-out.seen:
			started = true
		default:
		}
		extra["started_before_cancel"] = started
		extra["finished_before_cancel"] = early
		cpu0 := cpuMs()
		t0 := time.Now()
		cancel()
		grace := req.Cfg.GraceMs
		if grace <= 0 {
			grace = 5000
		}
		stopped := early
		if !early {
			select {
			case res = <-done:
				stopped = true
			case <-time.After(time.Duration(grace) * time.Millisecond):
			}
		}
		extra["cpu_ms_in_grace"] = cpuMs() - cpu0
		extra["gomaxprocs"] = runtime.GOMAXPROCS(0)
		if !stopped {
			r.Ran = true
			r.StopMs = -1
			r.Stdout = clip(out.String(), 2000)
			dump := dumpAll()
			r.Goroutines = clip(dump, 60000)
			for _, b := range goroutineBlocks(dump) {
				if strings.Contains(b, "main.c33RunVM") {
					st, fr := describeBlock(b)
					extra["vm_state"] = st
					extra["vm_frames"] = fr
				}
			}
			return
		}
		r.StopMs = int(time.Since(t0).Milliseconds())
		r.Ran = true
		r.Stdout = clip(out.String(), 4000)
		if res.p != nil {
			r.Panic = fmt.Sprint(res.p)
			return
		}
		if !res.e.IsUndefined() {
			r.ErrInspect = clip(res.e.Inspect(), 4000)
			r.ErrClass = res.e.Class().Name
			var b bytes.Buffer
			vm.PrintError(&b, th.ErrStackTrace(), res.e)
			r.Stderr = clip(b.String(), 8000)
		} else {
			r.Result = clip(res.v.Inspect(), 4000)
			r.ResultClass = res.v.Class().Name
		}
		r.Aborted = r.ErrClass == "Std::ExecutionAbortedError"
		if s := errw.String(); s != "" {
			r.Stderr += clip(s, 4000)
		}
		// Elk threads started by this program must stop too
		if lm := atoi("linger_ms", 0); lm > 0 {
			deadline := time.Now().Add(time.Duration(lm) * time.Millisecond)
			var left []string
			for {
				left = elkThreadBlocks(dumpAll())
				if len(left) <= base || time.Now().After(deadline) {
					break
				}
				time.Sleep(20 * time.Millisecond)
			}
			extra["lingering_threads"] = len(left) - base
			extra["linger_wait_ms"] = time.Since(t0).Milliseconds()
			if len(left) > base {
				var ds []map[string]any
				for _, b := range left {
					st, fr := describeBlock(b)
					ds = append(ds, map[string]any{"state": st, "frames": fr})
				}
				extra["lingering"] = ds
				extra["cpu_ms_in_linger"] = cpuMs() - cpu0
			}
		}
	})
	return
}
