package main

// Mode "probe" (property C02): static types describe runtime values.
//
// The program may wrap any expression e as `vprobe(k, e)` (k an integer
// literal, unique per site).  The mode
//  1. declares `def vprobe[V](id: Int, v: V): V` on Std::Kernel by checking a
//     two-line header into the checker instance (header mode: signatures only)
//     and defines it natively (generic identity, so inference and narrowing of e
//     are those of the unwrapped program),
//  2. type-checks and compiles the program, walks the checked AST and reads the
//     static type of the ARGUMENT expression of every probe call,
//  3. runs the program; the native probe checks every value it is handed against
//     the static type of its site with verif/internal/conform (conservative:
//     unsure => conforms) and records the violations.
//
// Run.Extra: probes (number of probe calls executed), sites (probe sites found in
// the checked tree), executed (ids of executed sites), static {id: type},
// kinds {id: coarse kind of the static type}, violations [{id, static, value, class, why}],
// unknown (ids executed but not found in the tree).

import (
	"fmt"
	"reflect"
	"sort"
	"strconv"
	"strings"

	"github.com/elk-language/elk/parser/ast"
	"github.com/elk-language/elk/types"
	"github.com/elk-language/elk/types/checker"
	"github.com/elk-language/elk/value"
	"github.com/elk-language/elk/vm"

	"verif/internal/conform"
	sb "verif/internal/sandbox"
)

func init() {
	modes["probe"] = func(req *sb.Req, max int) []sb.Run { return []sb.Run{probeRun(req, max)} }
}

const probeHeader = "module ::Std::Kernel\n\tdef vprobe[V](id: Int, v: V): V; end\nend\n"

const probeName = "vprobe"

var astNodeType = reflect.TypeOf((*ast.Node)(nil)).Elem()

// walkAST visits every ast.Node reachable through exported fields (reflection:
// independent of the nodes' own traverse methods, nil-safe).
func walkAST(v reflect.Value, seen map[uintptr]bool, visit func(ast.Node)) {
	switch v.Kind() {
	case reflect.Interface:
		if !v.IsNil() {
			walkAST(v.Elem(), seen, visit)
		}
	case reflect.Ptr:
		if v.IsNil() {
			return
		}
		et := v.Type().Elem()
		if et.Kind() != reflect.Struct || !strings.HasSuffix(et.PkgPath(), "/parser/ast") {
			return
		}
		if seen[v.Pointer()] {
			return
		}
		seen[v.Pointer()] = true
		if v.Type().Implements(astNodeType) && v.CanInterface() {
			visit(v.Interface().(ast.Node))
		}
		walkAST(v.Elem(), seen, visit)
	case reflect.Struct:
		t := v.Type()
		for i := 0; i < t.NumField(); i++ {
			if t.Field(i).PkgPath != "" { // unexported
				continue
			}
			walkAST(v.Field(i), seen, visit)
		}
	case reflect.Slice:
		for i := 0; i < v.Len(); i++ {
			walkAST(v.Index(i), seen, visit)
		}
	}
}

func identName(n ast.Node) string {
	switch i := n.(type) {
	case *ast.PublicIdentifierNode:
		return i.Value
	case *ast.PrivateIdentifierNode:
		return i.Value
	}
	return ""
}

type probeViolation struct {
	ID     int    `json:"id"`
	Static string `json:"static"`
	Value  string `json:"value"`
	Class  string `json:"class"`
	Why    string `json:"why"`
}

func probeRun(req *sb.Req, max int) (r sb.Run) {
	out, errw := &capWriter{max: max}, &capWriter{max: max}
	guard(&r, func() {
		static := map[int]types.Type{}
		var (
			executed   = map[int]int{}
			violations []probeViolation
			unknown    = map[int]bool{}
			nprobes    int
			c          *checker.Checker
			cth        *vm.Thread
		)
		// native side first: the compiler binds calls on Kernel statically when the method exists
		vm.Def(
			&value.KernelModule.SingletonClass().MethodContainer,
			probeName,
			func(_ *vm.Thread, args []value.Value) (value.Value, value.Value) {
				v := args[2]
				nprobes++
				id := -1
				if args[1].IsSmallInt() {
					id = int(args[1].AsSmallInt())
				}
				executed[id]++
				t, ok := static[id]
				if !ok {
					unknown[id] = true
					return v, value.Undefined
				}
				if len(violations) < 20 {
					okc, why := func() (ok bool, why string) {
						defer func() {
							if p := recover(); p != nil {
								ok, why = true, "" // the oracle itself failed: unsure => conforms
							}
						}()
						return conform.Check(cth, c.Env(), v, t)
					}()
					if !okc {
						cls := "?"
						if !v.IsUndefined() {
							cls = v.Class().Name
						}
						violations = append(violations, probeViolation{ID: id, Static: types.Inspect(t), Value: conform.Insp(v), Class: cls, Why: why})
					}
				}
				return v, value.Undefined
			},
			vm.DefWithParameters(2),
		)

		c = newChecker(req)
		c.SetHeader(true)
		_, hdl := c.CheckSource("<vprobe.elh>", probeHeader)
		c.SetHeader(false)
		if hdl.IsFailure() {
			panic(fmt.Sprintf("probe header rejected: %v", diags(hdl)))
		}
		c.ClearErrors()

		fn, dl := c.CheckSourceBytecode(name(req), req.Source)
		r.Diags = diags(dl)
		r.Accepted = !dl.IsFailure()
		if !r.Accepted || fn == nil {
			return
		}
		prog, ok := c.ASTCache.Get(name(req))
		if !ok || prog == nil {
			panic("probe: checked program not in the AST cache")
		}
		dup := map[int]bool{}
		walkAST(reflect.ValueOf(prog), map[uintptr]bool{}, func(n ast.Node) {
			var args []ast.ExpressionNode
			switch call := n.(type) {
			case *ast.MethodCallNode:
				if identName(call.MethodName) != probeName {
					return
				}
				args = call.PositionalArguments
			case *ast.ReceiverlessMethodCallNode:
				if identName(call.MethodName) != probeName {
					return
				}
				args = call.PositionalArguments
			default:
				return
			}
			if len(args) != 2 {
				return
			}
			lit, ok := args[0].(*ast.IntLiteralNode)
			if !ok {
				return
			}
			id, err := strconv.Atoi(lit.Value)
			if err != nil {
				return
			}
			t := c.TypeOf(args[1])
			if _, seen := static[id]; seen {
				dup[id] = true // same id at two sites (or a copied node): not decidable, accept everything
				t = types.Any{}
			}
			static[id] = t
		})

		fill := func() {
			st, kinds := map[string]string{}, map[string]string{}
			for id, t := range static {
				k := strconv.Itoa(id)
				st[k] = types.Inspect(t)
				kinds[k] = conform.Kind(t)
			}
			var ex, unk []int
			for id := range executed {
				ex = append(ex, id)
			}
			for id := range unknown {
				unk = append(unk, id)
			}
			sort.Ints(ex)
			sort.Ints(unk)
			r.Extra = map[string]any{
				"probes": nprobes, "sites": len(static), "executed": ex, "static": st, "kinds": kinds,
				"violations": violations, "unknown": unk,
			}
		}
		cth = vm.New()
		th := newVM(req, out, errw)
		defer func() {
			if p := recover(); p != nil {
				r.Ran = true
				r.Stdout = out.buf.String()
				fill()
				panic(p)
			}
		}()
		res, e := th.InterpretTopLevel(fn)
		finish(&r, th, res, e, out, errw)

		fill()
	})
	return
}
