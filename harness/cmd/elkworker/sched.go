package main

// setSched forwards the schedule-perturbation seed to the verif hooks (if the
// hook files exist in /repo; otherwise a no-op set in sched_hooks.go).
var setSched = func(seed int64) {}
