// elkworker executes requests (type-check / run / REPL session …) against the
// elk packages of /repo's working tree.  One JSON request per line on stdin, one
// JSON response per line on the original stdout.  The process is disposable: any
// fatal error here only costs the parent a restart.
package main

import (
	"bufio"
	"bytes"
	"context"
	"encoding/json"
	"fmt"
	"os"
	"runtime"
	"runtime/debug"
	"strings"
	"syscall"
	"time"

	"github.com/elk-language/elk"
	"github.com/elk-language/elk/env"
	"github.com/elk-language/elk/position/diagnostic"
	"github.com/elk-language/elk/types/checker"
	"github.com/elk-language/elk/value"
	"github.com/elk-language/elk/vm"
	"github.com/fatih/color"

	sb "verif/internal/sandbox"
)

type capWriter struct {
	buf bytes.Buffer
	max int
}

func (c *capWriter) Write(p []byte) (int, error) {
	if c.buf.Len() < c.max {
		room := c.max - c.buf.Len()
		if len(p) > room {
			c.buf.Write(p[:room])
		} else {
			c.buf.Write(p)
		}
	}
	return len(p), nil
}

func diags(dl diagnostic.DiagnosticList) []sb.Diag {
	var out []sb.Diag
	for _, d := range dl {
		x := sb.Diag{Severity: d.Severity.String(), Msg: d.Message}
		if d.Location != nil {
			x.File = d.Location.FilePath
			if d.Location.Span != nil && d.Location.StartPos != nil {
				x.Line, x.Col = d.Location.StartPos.Line, d.Location.StartPos.Column
			}
		}
		out = append(out, x)
	}
	return out
}

func guard(r *sb.Run, f func()) {
	defer func() {
		if p := recover(); p != nil {
			r.Panic = fmt.Sprintf("%v\n%s", p, clip(string(debug.Stack()), 6000))
		}
	}()
	f()
}

func clip(s string, n int) string {
	if len(s) > n {
		return s[:n]
	}
	return s
}

func name(req *sb.Req) string {
	if req.Name != "" {
		return req.Name
	}
	return "<main>"
}

func newChecker(req *sb.Req) *checker.Checker {
	c := checker.New()
	if req.Cfg.AbortChecks {
		c.SetAdditionalAbortChecks(true)
	}
	if req.Cfg.Incremental {
		c.SetIncremental(true)
	}
	return c
}

func newVM(req *sb.Req, out, errw *capWriter, extra ...vm.Option) *vm.Thread {
	opts := []vm.Option{vm.WithStdout(out), vm.WithStderr(errw)}
	if req.Cfg.Pool > 0 {
		q := req.Cfg.Queue
		if q <= 0 {
			q = 256
		}
		opts = append(opts, vm.WithThreadPool(vm.NewThreadPool(req.Cfg.Pool, q, vm.WithStdout(out), vm.WithStderr(errw))))
	}
	opts = append(opts, extra...)
	return vm.New(opts...)
}

func finish(r *sb.Run, th *vm.Thread, res, elkErr value.Value, out, errw *capWriter) {
	r.Ran = true
	r.Stdout = out.buf.String()
	if !elkErr.IsUndefined() {
		r.ErrInspect = clip(elkErr.Inspect(), 4000)
		r.ErrClass = elkErr.Class().Name
		var b bytes.Buffer
		vm.PrintError(&b, th.ErrStackTrace(), elkErr)
		r.Stderr = clip(b.String(), 8000)
	} else {
		r.Result = clip(res.Inspect(), 4000)
		r.ResultClass = res.Class().Name
	}
	if errw.buf.Len() > 0 {
		r.Stderr += clip(errw.buf.String(), 4000)
	}
}

func handle(req *sb.Req) (resp sb.Resp) {
	resp.ID = req.ID
	max := req.Cfg.MaxOut
	if max <= 0 {
		max = 1 << 20
	}
	if req.Cfg.ConcLimit > 0 {
		checker.MethodCheckConcurrencyLimit = req.Cfg.ConcLimit
	} else {
		checker.MethodCheckConcurrencyLimit = 100
	}
	setSched(req.Cfg.SchedSeed)
	elk.InitGlobalEnvironment()
	switch req.Mode {
	case "check":
		// one-shot, or (Inputs given) an incremental session fed fragment by fragment
		inputs := req.Inputs
		if len(inputs) == 0 {
			inputs = []string{req.Source}
		}
		var c *checker.Checker
		for i, in := range inputs {
			var r sb.Run
			guard(&r, func() {
				if c == nil {
					c = newChecker(req)
				}
				_, dl := c.CheckSource(fmt.Sprintf("%s:%d", name(req), i), in)
				r.Diags = diags(dl)
				r.Accepted = !dl.IsFailure()
				if req.Cfg.Incremental {
					c.ClearErrors()
				}
			})
			resp.Runs = append(resp.Runs, r)
			if r.Panic != "" {
				break
			}
		}
	case "run":
		var r sb.Run
		out, errw := &capWriter{max: max}, &capWriter{max: max}
		guard(&r, func() {
			c := newChecker(req)
			fn, dl := c.CheckSourceBytecode(name(req), req.Source)
			r.Diags = diags(dl)
			r.Accepted = !dl.IsFailure()
			if !r.Accepted || fn == nil {
				return
			}
			if req.Cfg.Disasm {
				var b bytes.Buffer
				fn.Disassemble(&b)
				r.Disasm = b.String()
			}
			th := newVM(req, out, errw)
			defer func() {
				if p := recover(); p != nil {
					r.Ran = true
					r.Stdout = out.buf.String()
					panic(p)
				}
			}()
			res, e := th.InterpretTopLevel(fn)
			finish(&r, th, res, e, out, errw)
			// full capacity of the value stack after the run (it only ever grows): C10 measures reallocation with it
			r.Extra = map[string]any{"stack_cap": cap(th.ValueStack()), "init_stack": vm.INIT_VALUE_STACK_SIZE}
		})
		resp.Runs = []sb.Run{r}
	case "repl":
		// exactly what repl.evaluate does, minus the terminal
		out, errw := &capWriter{max: max}, &capWriter{max: max}
		var c *checker.Checker
		var th *vm.Thread
		for i, in := range req.Inputs {
			var r sb.Run
			dead := false
			guard(&r, func() {
				if c == nil {
					c = checker.New()
					c.SetAdditionalAbortChecks(true)
					c.SetIncremental(true)
					th = newVM(req, out, errw)
				}
				out.buf.Reset()
				errw.buf.Reset()
				fn, dl := c.CheckSourceBytecode(fmt.Sprintf("<repl:%d>", i), in)
				if dl != nil {
					r.Diags = diags(dl)
					fail := dl.IsFailure()
					c.ClearErrors()
					if fail {
						return
					}
				}
				r.Accepted = true
				if fn == nil {
					return
				}
				ctx, cancel := context.WithCancel(context.Background())
				defer cancel()
				th.Aborter = value.NewAborter(ctx, cancel)
				defer func() {
					if p := recover(); p != nil {
						dead = true
						r.Ran = true
						r.Stdout = out.buf.String()
						panic(p)
					}
				}()
				res, e := th.InterpretREPL(fn)
				finish(&r, th, res, e, out, errw)
				if !e.IsUndefined() {
					th.ResetError()
				}
			})
			resp.Runs = append(resp.Runs, r)
			if dead || (r.Panic != "" && c == nil) {
				break
			}
		}
	case "cancel":
		resp.Runs = []sb.Run{cancelRun(req, max)}
	default:
		if h, ok := modes[req.Mode]; ok {
			resp.Runs = h(req, max)
		} else {
			resp.Err = "unknown mode " + req.Mode
		}
	}
	return
}

// extra modes registered by other files of this command
var modes = map[string]func(*sb.Req, int) []sb.Run{}

func cancelRun(req *sb.Req, max int) (r sb.Run) {
	out, errw := &capWriter{max: max}, &capWriter{max: max}
	guard(&r, func() {
		c := checker.New()
		c.SetAdditionalAbortChecks(true)
		c.SetIncremental(true)
		fn, dl := c.CheckSourceBytecode(name(req), req.Source)
		r.Diags = diags(dl)
		r.Accepted = !dl.IsFailure()
		if !r.Accepted || fn == nil {
			return
		}
		ctx, cancel := context.WithCancel(context.Background())
		defer cancel()
		th := newVM(req, out, errw)
		th.Aborter = value.NewAborter(ctx, cancel)
		type res struct {
			v, e value.Value
			p    any
		}
		done := make(chan res, 1)
		go func() {
			var x res
			defer func() {
				if p := recover(); p != nil {
					x.p = fmt.Sprintf("%v\n%s", p, clip(string(debug.Stack()), 4000))
				}
				done <- x
			}()
			x.v, x.e = th.InterpretREPL(fn)
		}()
		early := false
		select {
		case x := <-done:
			early = true
			done <- x
		case <-time.After(time.Duration(req.Cfg.CancelMs) * time.Millisecond):
		}
		t0 := time.Now()
		cancel()
		grace := req.Cfg.GraceMs
		if grace <= 0 {
			grace = 5000
		}
		select {
		case x := <-done:
			r.StopMs = int(time.Since(t0).Milliseconds())
			r.Extra = map[string]any{"finished_before_cancel": early}
			if x.p != nil {
				r.Panic = fmt.Sprint(x.p)
				r.Ran = true
				return
			}
			finish(&r, th, x.v, x.e, out, errw)
			r.Aborted = r.ErrClass == "Std::ExecutionAbortedError"
		case <-time.After(time.Duration(grace) * time.Millisecond):
			r.Ran = true
			r.StopMs = -1
			r.Stdout = clip(out.buf.String(), 2000)
			buf := make([]byte, 1<<18)
			n := runtime.Stack(buf, true)
			r.Goroutines = string(buf[:n])
		}
	})
	return
}

func main() {
	if env.ELKPATH == "" {
		env.ELKPATH = "/repo"
	}
	color.NoColor = true
	// the protocol stream is a duplicate of the original stdout; file descriptor 1 itself is pointed at
	// /dev/null, because package-level objects of the VM (the default thread pool) captured os.Stdout at
	// init time and their threads would otherwise print program output into the protocol
	out := os.Stdout
	devnull, _ := os.OpenFile(os.DevNull, os.O_WRONLY, 0)
	if fd, err := syscall.Dup(1); err == nil {
		out = os.NewFile(uintptr(fd), "protocol")
		_ = syscall.Dup2(int(devnull.Fd()), 1)
	}
	os.Stdout = devnull
	rd := bufio.NewReaderSize(os.Stdin, 1<<20)
	w := bufio.NewWriter(out)
	for {
		line, err := rd.ReadBytes('\n')
		if len(line) > 0 {
			var req sb.Req
			var resp sb.Resp
			if e := json.Unmarshal(line, &req); e != nil {
				resp.Err = "bad request: " + e.Error()
			} else {
				resp = handle(&req)
			}
			b, _ := json.Marshal(&resp)
			w.Write(b)
			w.WriteByte('\n')
			w.Flush()
		}
		if err != nil {
			return
		}
	}
}

var _ = strings.TrimSpace
