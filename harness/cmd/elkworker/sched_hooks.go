//go:build verif

package main

// Wiring of the H2 verification hooks of /repo/vm (vm/verif_hooks.go, build tag
// `verif`): the schedule-perturbation seed of ordinary requests, and the "c16"
// mode, which compiles one program and runs it under several
// (pool size, queue size, schedule seed) configurations with tracing on.

import (
	"fmt"
	"runtime"
	"runtime/debug"
	"strconv"
	"strings"
	"sync"
	"time"

	"github.com/elk-language/elk/value"
	"github.com/elk-language/elk/vm"

	sb "verif/internal/sandbox"
)

func init() {
	prev := setSched
	setSched = func(seed int64) { prev(seed); vm.VerifSetSched(seed, false) }
	modes["c16"] = c16Mode
}

// lockedWriter serialises the writes of the pool threads (os.Stdout, which the
// real interpreter uses, is safe for concurrent use; a bytes.Buffer is not).
type lockedWriter struct {
	mu sync.Mutex
	w  *capWriter
}

func (l *lockedWriter) Write(p []byte) (int, error) {
	l.mu.Lock()
	defer l.mu.Unlock()
	return l.w.Write(p)
}

func (l *lockedWriter) String() string {
	l.mu.Lock()
	defer l.mu.Unlock()
	return l.w.buf.String()
}

func allStacks() string {
	buf := make([]byte, 1<<20)
	n := runtime.Stack(buf, true)
	return string(buf[:n])
}

func traceString(ev []vm.VerifEvent) string {
	var b strings.Builder
	for i, e := range ev {
		if i > 0 {
			b.WriteByte('|')
		}
		fmt.Fprintf(&b, "%d %d %d %d", e[1], e[2], e[3], e[4])
	}
	return b.String()
}

// c16Mode: Source = program; Inputs = lines "P Q seed deadline_ms".  One Run per
// executed input.  A run that does not finish before its deadline is not
// judged here: two dumps of all goroutine stacks taken one second apart are
// returned (Goroutines, separated by a marker line) together with the hook
// event counters at both instants; the remaining inputs are skipped and the
// client must discard this process.
func c16Mode(req *sb.Req, max int) (runs []sb.Run) {
	var first sb.Run
	var fn *vm.BytecodeFunction
	guard(&first, func() {
		c := newChecker(req)
		f, dl := c.CheckSourceBytecode(name(req), req.Source)
		first.Diags = diags(dl)
		first.Accepted = !dl.IsFailure()
		if first.Accepted {
			fn = f
		}
	})
	if fn == nil || first.Panic != "" {
		return []sb.Run{first}
	}
	for _, in := range req.Inputs {
		f := strings.Fields(in)
		if len(f) != 4 {
			return append(runs, sb.Run{Panic: "c16: bad input line " + in})
		}
		p, _ := strconv.Atoi(f[0])
		q, _ := strconv.Atoi(f[1])
		seed, _ := strconv.ParseInt(f[2], 10, 64)
		ms, _ := strconv.Atoi(f[3])
		r, hung := c16Run(fn, p, q, seed, time.Duration(ms)*time.Millisecond, max)
		r.Accepted = true
		runs = append(runs, r)
		if hung || r.Panic != "" {
			break
		}
	}
	return runs
}

func c16Run(fn *vm.BytecodeFunction, p, q int, seed int64, deadline time.Duration, max int) (r sb.Run, hung bool) {
	out := &lockedWriter{w: &capWriter{max: max}}
	errw := &lockedWriter{w: &capWriter{max: max}}
	pool := vm.NewThreadPool(p, q, vm.WithStdout(out), vm.WithStderr(errw))
	th := vm.New(vm.WithStdout(out), vm.WithStderr(errw), vm.WithThreadPool(pool))
	vm.VerifSetSched(seed, true)
	type res struct {
		v, e value.Value
		p    string
	}
	done := make(chan res, 1)
	t0 := time.Now()
	go func() {
		var x res
		defer func() {
			if pv := recover(); pv != nil {
				x.p = fmt.Sprintf("%v\n%s", pv, clip(string(debug.Stack()), 6000))
			}
			done <- x
		}()
		x.v, x.e = th.InterpretTopLevel(fn)
	}()
	extra := map[string]any{"p": p, "q": q, "seed": seed}
	r.Extra = extra
	r.Ran = true
	select {
	case x := <-done:
		extra["us"] = time.Since(t0).Microseconds()
		// let the pool threads leave the settle / register paths they are still in
		quiescent := false
		for i := 0; i < 40000; i++ {
			c := vm.VerifPointCounts()
			if c[vm.VerifSettleEnter] == c[vm.VerifSettleDone] && c[vm.VerifRegister] == c[vm.VerifUnlocked] {
				quiescent = true
				break
			}
			time.Sleep(50 * time.Microsecond)
		}
		extra["quiescent"] = quiescent
		if quiescent {
			pool.Close()
		}
		ev, settles, delays := vm.VerifTakeTrace()
		extra["trace"] = traceString(ev)
		extra["delays"] = delays
		st := make([]string, 0, len(settles))
		for id, n := range settles {
			st = append(st, fmt.Sprintf("%d:%d", id, n))
		}
		extra["settles"] = strings.Join(st, " ")
		vm.VerifSetSched(0, false)
		r.Stdout = out.String()
		if x.p != "" {
			r.Panic = x.p
			return r, false
		}
		if !x.e.IsUndefined() {
			r.ErrInspect = clip(x.e.Inspect(), 4000)
			r.ErrClass = x.e.Class().Name
		} else {
			r.Result = clip(x.v.Inspect(), 4000)
		}
		if s := errw.String(); s != "" {
			r.Stderr = clip(s, 4000)
		}
		return r, false
	case <-time.After(deadline):
		n1 := vm.VerifEventCount()
		d1 := allStacks()
		time.Sleep(time.Second)
		n2 := vm.VerifEventCount()
		d2 := allStacks()
		finished := false
		select {
		case <-done:
			finished = true
		default:
		}
		ev, _, delays := vm.VerifTakeTrace()
		extra["hung"] = true
		extra["finished_late"] = finished
		extra["events1"] = n1
		extra["events2"] = n2
		extra["delays"] = delays
		extra["trace"] = traceString(ev)
		r.Goroutines = d1 + "\n=====C16 SECOND DUMP=====\n" + d2
		r.Stdout = clip(out.String(), 4000)
		return r, true
	}
}
