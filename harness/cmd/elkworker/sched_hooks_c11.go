//go:build verif

package main

import "github.com/elk-language/elk/concurrent"

// H1 (C11): forward the schedule seed of a request to the perturbation hook of
// concurrent.Foreach (concurrent/foreach_verif.go in the repository; seed 0 =
// hook off, Foreach behaves as in a build without the tag).  Chained with the
// other hook wiring files: every registered hook receives the seed.
func init() {
	prev := setSched
	setSched = func(seed int64) { prev(seed); concurrent.SetVerifSchedule(seed) }
}
