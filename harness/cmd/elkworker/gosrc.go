package main

// Mode "gosrc" (added for C09): run the native Go backend on a program exactly
// as elk.CompileSource does (checker.CheckSourceNative with the GoCompilerFlag,
// Flush, go/format) and return the generated Go source in Extra["go"].
//
//	Accepted        – no failure diagnostics
//	Extra["go"]     – gofmt-ed Go source (when generation and formatting succeeded)
//	Extra["raw"]    – unformatted source, Extra["fmt_err"] – error, when go/format rejected it
//	Panic           – Go panic inside the checker/backend on the main goroutine

import (
	"bytes"
	"go/format"

	"github.com/elk-language/elk/bitfield"
	"github.com/elk-language/elk/types/checker"

	sb "verif/internal/sandbox"
)

func init() {
	modes["gosrc"] = func(req *sb.Req, max int) []sb.Run {
		var r sb.Run
		guard(&r, func() {
			var buf bytes.Buffer
			gc, dl := checker.CheckSourceNative(name(req), req.Source, nil, bitfield.BitField16{}, &buf, nil)
			r.Diags = diags(dl)
			r.Accepted = !dl.IsFailure()
			if !r.Accepted || gc == nil {
				return
			}
			gc.Flush()
			r.Ran = true
			out, err := format.Source(buf.Bytes())
			if err != nil {
				r.Extra = map[string]any{"fmt_err": err.Error(), "raw": clip(buf.String(), 200000)}
				return
			}
			r.Extra = map[string]any{"go": string(out)}
		})
		return []sb.Run{r}
	}
}
