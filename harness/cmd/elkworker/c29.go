// Worker mode "bytecode" (property C29): compile a program and describe every
// vm.BytecodeFunction reachable from the result (value pools, call-site method
// pointers) as plain data, so that the structural oracle can run in the test
// process.  Nothing is executed unless cfg.step_trace asks for it.
package main

import (
	"bytes"
	"encoding/base64"
	"fmt"
	"reflect"
	"runtime/debug"

	"github.com/elk-language/elk/value"
	"github.com/elk-language/elk/vm"

	sb "verif/internal/sandbox"
)

func init() { modes["bytecode"] = bytecodeMode }

// bcFunc is the JSON description of one compiled function.
type bcFunc struct {
	Name     string   `json:"name"`
	Parent   int      `json:"parent"` // index of the function whose pool holds this one (-1: top level)
	Via      string   `json:"via"`    // "root" | "pool" | "callsite"
	Code     string   `json:"code"`   // base64 of Instructions
	Params   int      `json:"params"`
	OptPar   int      `json:"optpar"`
	Upvalues int      `json:"upvalues"`
	Values   []string `json:"values"`  // one kind tag per pool entry
	Catches  [][4]int `json:"catches"` // from, to, jump, finally(0/1)
	Lines    [][2]int `json:"lines"`   // line number, byte count
	DisErr   string   `json:"dis_err,omitempty"`   // error of Disassemble()
	DisPanic string   `json:"dis_panic,omitempty"` // Go panic inside the disassembler
	DisOffs  []int    `json:"dis_offs"`            // instruction start offsets according to DisassembleInstruction
	DisEnd   int      `json:"dis_end"`             // offset after the last instruction according to the disassembler
	Disasm   string   `json:"disasm,omitempty"`
}

const bcMaxFuncs = 4000

func kindTag(v value.Value, idx func(*vm.BytecodeFunction, string) int) string {
	switch {
	case v.IsUndefined():
		return "undef"
	case v.IsSmallInt():
		return fmt.Sprintf("int:%d", int64(v.AsSmallInt()))
	case v.IsInlineSymbol():
		return "sym"
	}
	if !v.IsReference() {
		return "inline"
	}
	switch r := v.SafeAsReference().(type) {
	case *vm.BytecodeFunction:
		return fmt.Sprintf("fn:%d", idx(r, "pool"))
	case *vm.CallSiteInfo:
		return fmt.Sprintf("callsite:%d", r.ArgumentCount)
	case *vm.BytecodeCallSiteInfo:
		t := 0
		if r.TailCall {
			t = 1
		}
		if r.Method != nil {
			idx(r.Method, "callsite")
		}
		return fmt.Sprintf("bccallsite:%d:%d", r.ArgumentCount, t)
	case *vm.NativeCallSiteInfo:
		return fmt.Sprintf("ntcallsite:%d", r.ArgumentCount)
	case *vm.Select:
		pops, def := 0, 0
		for _, c := range r.Cases {
			switch c.Direction {
			case reflect.SelectRecv:
				pops++
			case reflect.SelectSend:
				pops += 2
			case reflect.SelectDefault:
				def = 1
			}
		}
		return fmt.Sprintf("select:%d:%d:%d", pops, len(r.Cases), def)
	case nil:
		return "nilref"
	default:
		return "ref:" + reflect.TypeOf(r).String()
	}
}

func describe(root *vm.BytecodeFunction, withText bool) []bcFunc {
	var fns []*vm.BytecodeFunction
	var out []bcFunc
	index := map[*vm.BytecodeFunction]int{}
	cur := -1
	add := func(f *vm.BytecodeFunction, via string) int {
		if i, ok := index[f]; ok {
			return i
		}
		if len(fns) >= bcMaxFuncs {
			return -1
		}
		index[f] = len(fns)
		fns = append(fns, f)
		out = append(out, bcFunc{Parent: cur, Via: via})
		return len(fns) - 1
	}
	add(root, "root")
	for i := 0; i < len(fns); i++ {
		f := fns[i]
		cur = i
		d := &out[i]
		func() {
			defer func() {
				if p := recover(); p != nil {
					d.Name = fmt.Sprintf("<panic describing: %v>", p)
				}
			}()
			d.Name = f.Name().String()
		}()
		d.Code = base64.StdEncoding.EncodeToString(f.Instructions)
		d.Params, d.OptPar, d.Upvalues = f.ParameterCount(), f.OptionalParameterCount(), f.UpvalueCount
		d.Values = make([]string, len(f.Values))
		for j, v := range f.Values {
			d.Values[j] = kindTag(v, add)
		}
		d = &out[i] // add() may have reallocated out
		for _, c := range f.CatchEntries {
			fin := 0
			if c.Finally {
				fin = 1
			}
			d.Catches = append(d.Catches, [4]int{c.From, c.To, c.JumpAddress, fin})
		}
		for _, l := range f.LineInfoList {
			d.Lines = append(d.Lines, [2]int{l.LineNumber, l.InstructionCount})
		}
		// the subject under test: the repository's own disassembler
		func() {
			defer func() {
				if p := recover(); p != nil {
					d.DisPanic = clip(fmt.Sprintf("%v\n%s", p, debug.Stack()), 3000)
				}
			}()
			var b bytes.Buffer
			off := 0
			for len(f.Instructions) > 0 && off < len(f.Instructions) {
				d.DisOffs = append(d.DisOffs, off)
				n, err := f.DisassembleInstruction(&b, off)
				if err != nil {
					d.DisErr = err.Error()
					off = n
					break
				}
				if n <= off {
					d.DisErr = fmt.Sprintf("disassembler did not advance at offset %d", off)
					break
				}
				off = n
			}
			d.DisEnd = off
		}()
		if d.DisPanic == "" {
			// what the property statement names: Disassemble() of the function (it recurses into the
			// pool and drops the errors of nested functions, hence the per-function loop above)
			func() {
				defer func() {
					if p := recover(); p != nil {
						d.DisPanic = clip(fmt.Sprintf("Disassemble: %v\n%s", p, debug.Stack()), 3000)
					}
				}()
				var b bytes.Buffer
				if err := f.Disassemble(&b); err != nil && d.DisErr == "" {
					d.DisErr = "Disassemble: " + err.Error()
				}
				if withText {
					d.Disasm = clip(b.String(), 200000)
				}
			}()
		}
	}
	return out
}

func bytecodeMode(req *sb.Req, max int) []sb.Run {
	var r sb.Run
	out, errw := &capWriter{max: max}, &capWriter{max: max}
	guard(&r, func() {
		c := newChecker(req)
		fn, dl := c.CheckSourceBytecode(name(req), req.Source)
		r.Diags = diags(dl)
		r.Accepted = !dl.IsFailure()
		if !r.Accepted || fn == nil {
			return
		}
		r.Extra = map[string]any{"funcs": describe(fn, req.Cfg.Disasm)}
		_, _ = out, errw
	})
	return []sb.Run{r}
}
