// corpusgen writes the extracted test corpus as JSON to the file named by argv[1].
package main

import (
	"encoding/json"
	"fmt"
	"os"

	"verif/internal/corpus"
)

func main() {
	es := corpus.Extract(corpus.RepoRoot())
	b, _ := json.Marshal(es)
	if err := os.WriteFile(os.Args[1], b, 0o644); err != nil {
		fmt.Fprintln(os.Stderr, err)
		os.Exit(2)
	}
	fmt.Println(len(es))
}
