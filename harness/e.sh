#!/bin/bash
# developer helper: run an Elk snippet from stdin with the elk binary built from /repo
f=$(mktemp /tmp/snip.XXXXXX.elk); cat > $f; ELKPATH=/repo NO_COLOR=1 timeout 20 /verif/.build/elk run $f; echo "[exit $?]"; rm -f $f
