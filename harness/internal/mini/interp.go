package mini

import (
	"fmt"
	"math/big"
	"strings"
)

type ckind int

const (
	cNormal ckind = iota
	cBreak
	cContinue
	cReturn
	cThrow
)

type compl struct {
	kind  ckind
	label string
	val   any
}

var normal = compl{}

// Result of the reference interpreter.
type Result struct {
	Stdout  string
	Err     string // inspect of the uncaught thrown value ("" = none)
	Events  map[string]int
	Aborted bool // step budget exceeded: program discarded
}

type frame struct {
	defers []func() compl
}

type interp struct {
	out     strings.Builder
	methods map[string]*N
	steps   int
	events  map[string]int
	frames  []*frame
}

const maxSteps = 200000

type abort struct{}

// Run interprets the program.
func Run(p *Program) (res Result) {
	it := &interp{methods: map[string]*N{}, events: map[string]int{}}
	for _, m := range p.Methods {
		it.methods[m.S] = m
	}
	defer func() {
		if r := recover(); r != nil {
			if _, ok := r.(abort); ok {
				res = Result{Aborted: true, Events: it.events}
				return
			}
			panic(r)
		}
	}()
	env := newEnv(nil, true)
	c := it.callBody(p.Main, env)
	res.Stdout = it.out.String()
	res.Events = it.events
	if c.kind == cThrow {
		res.Err = Inspect(c.val)
	}
	return
}

// callBody runs a function body in a fresh frame, then its defers (LIFO).
func (it *interp) callBody(body []*N, env *Env) compl {
	fr := &frame{}
	it.frames = append(it.frames, fr)
	c, last := it.block(body, env, true)
	if c.kind == cNormal {
		c.val = last
	}
	for i := len(fr.defers) - 1; i >= 0; i-- {
		if c.kind != cNormal {
			it.events["defer_nonnormal"]++
		}
		d := fr.defers[i]()
		if d.kind == cThrow {
			c = d
		}
	}
	it.frames = it.frames[:len(it.frames)-1]
	kill(env)
	if c.kind == cThrow {
		markThrown(env)
	}
	return c
}

func markThrown(e *Env) {
	for _, c := range e.vars {
		c.ByThrow = true
	}
}

func kill(e *Env) {
	for _, c := range e.vars {
		c.Dead = true
	}
}

// block executes statements in a new scope (unless sameScope); returns the
// completion and the value of the last expression statement.
func (it *interp) block(stmts []*N, parent *Env, sameScope bool) (compl, any) {
	env := parent
	if !sameScope {
		env = newEnv(parent, false)
		defer kill(env)
	}
	var last any = NilV{}
	for _, s := range stmts {
		c, v := it.stmt(s, env)
		last = v
		if c.kind != cNormal {
			if c.kind == cThrow && !sameScope {
				markThrown(env)
			}
			return c, last
		}
	}
	return normal, last
}

func (it *interp) tick() {
	it.steps++
	if it.steps > maxSteps {
		panic(abort{})
	}
}

func truthy(v any) bool {
	switch x := v.(type) {
	case bool:
		return x
	case NilV:
		return false
	}
	return true
}

func (it *interp) stmt(n *N, env *Env) (compl, any) {
	it.tick()
	switch n.K {
	case "print":
		v, c := it.expr(n.C[0], env)
		if c.kind != cNormal {
			return c, nil
		}
		if _, isNil := v.(NilV); isNil && n.C[0].T == TNInt {
			it.out.WriteString("-99\n")
		} else if n.C[0].T == TBool {
			it.out.WriteString(Inspect(v) + "\n")
		} else {
			it.out.WriteString(ToString(v) + "\n")
		}
		return normal, NilV{}
	case "trace":
		fmt.Fprintf(&it.out, "t%d\n", n.I)
		return normal, NilV{}
	case "decl":
		v, c := it.expr(n.C[0], env)
		if c.kind != cNormal {
			return c, nil
		}
		env.vars[n.S] = &Cell{V: v}
		return normal, v
	case "closure":
		cl := &Closure{Fn: n, Env: env}
		env.vars[n.S] = &Cell{V: cl}
		return normal, cl
	case "assign":
		// `a op= e` is `a = a op e`: the variable is read before e is evaluated
		var old any
		if n.L != "" && n.L != "=" {
			old = it.cell(n.S, env, false).V
		}
		v, c := it.expr(n.C[0], env)
		if c.kind != cNormal {
			return c, nil
		}
		cell := it.cell(n.S, env, true)
		switch n.L {
		case "", "=":
			cell.V = v
		case "+=":
			cell.V = new(big.Int).Add(old.(*big.Int), v.(*big.Int))
		case "-=":
			cell.V = new(big.Int).Sub(old.(*big.Int), v.(*big.Int))
		case "*=":
			cell.V = new(big.Int).Mul(old.(*big.Int), v.(*big.Int))
		}
		return normal, cell.V
	case "push":
		v, c := it.expr(n.C[0], env)
		if c.kind != cNormal {
			return c, nil
		}
		l := it.cell(n.S, env, false).V.(*List)
		l.E = append(l.E, v)
		return normal, l
	case "expr":
		v, c := it.expr(n.C[0], env)
		return c, v
	case "if", "unless":
		v, c := it.expr(n.C[0], env)
		if c.kind != cNormal {
			return c, nil
		}
		t := truthy(v)
		if n.K == "unless" {
			t = !t
		}
		if t {
			return it.block(n.B[0], env, false)
		}
		if len(n.B) > 1 && len(n.B[1]) > 0 {
			return it.block(n.B[1], env, false)
		}
		return normal, NilV{}
	case "while", "until", "loop", "dowhile":
		first := true
		for {
			it.tick()
			if n.K == "while" || n.K == "until" || (n.K == "dowhile" && !first) {
				v, c := it.expr(n.C[0], env)
				if c.kind != cNormal {
					return c, nil
				}
				t := truthy(v)
				if n.K == "until" {
					t = !t
				}
				if !t {
					break
				}
			}
			first = false
			c, _ := it.block(n.B[0], env, false)
			if stop, out := it.loopCompl(c, n.L); stop {
				return out, NilV{}
			}
		}
		return normal, NilV{}
	case "forin":
		seq, c := it.expr(n.C[0], env)
		if c.kind != cNormal {
			return c, nil
		}
		// lists are iterated live by index (a body may push to the list through a closure)
		next := func(i int) (any, bool) {
			switch s := seq.(type) {
			case *List:
				if i < len(s.E) {
					return s.E[i], true
				}
			case [2]*big.Int:
				v := new(big.Int).Add(s[0], bi(int64(i)))
				if v.Cmp(s[1]) <= 0 {
					return v, true
				}
			}
			return nil, false
		}
		for i := 0; ; i++ {
			item, ok := next(i)
			if !ok {
				break
			}
			it.tick()
			scope := newEnv(env, false)
			scope.vars[n.S] = &Cell{V: item}
			c, _ := it.block(n.B[0], scope, false)
			kill(scope)
			if stop, out := it.loopCompl(c, n.L); stop {
				return out, NilV{}
			}
		}
		return normal, NilV{}
	case "fornum":
		cur := bi(n.C[0].I)
		for cur.Cmp(bi(n.I)) < 0 {
			it.tick()
			scope := newEnv(env, false)
			scope.vars[n.S] = &Cell{V: new(big.Int).Set(cur)}
			c, _ := it.block(n.B[0], scope, false)
			// the induction variable is read back from the iteration's binding
			cur = new(big.Int).Add(scope.vars[n.S].V.(*big.Int), bi(1))
			kill(scope)
			if stop, out := it.loopCompl(c, n.L); stop {
				return out, NilV{}
			}
		}
		return normal, NilV{}
	case "break", "continue":
		if len(n.C) > 0 {
			v, c := it.expr(n.C[0], env)
			if c.kind != cNormal {
				return c, nil
			}
			if !truthy(v) {
				return normal, NilV{}
			}
		}
		k := cBreak
		if n.K == "continue" {
			k = cContinue
		}
		return compl{kind: k, label: n.S}, nil
	case "return":
		if len(n.C) > 1 {
			v, c := it.expr(n.C[1], env)
			if c.kind != cNormal {
				return c, nil
			}
			if !truthy(v) {
				return normal, NilV{}
			}
		}
		v, c := it.expr(n.C[0], env)
		if c.kind != cNormal {
			return c, nil
		}
		return compl{kind: cReturn, val: v}, nil
	case "throw":
		if len(n.C) > 0 {
			v, c := it.expr(n.C[0], env)
			if c.kind != cNormal {
				return c, nil
			}
			if !truthy(v) {
				return normal, NilV{}
			}
		}
		var tv any = Sym(strings.TrimPrefix(n.S, ":"))
		if strings.HasPrefix(n.S, "\"") {
			tv = strings.Trim(n.S, "\"")
		}
		return compl{kind: cThrow, val: tv}, nil
	case "defer":
		fr := it.frames[len(it.frames)-1]
		body := n.B[0]
		fr.defers = append(fr.defers, func() compl {
			c, _ := it.block(body, env, false)
			return c
		})
		return normal, NilV{}
	case "do":
		c, v := it.block(n.B[0], env, false)
		if c.kind == cThrow {
			for i, cl := range n.X {
				if bind, ok := matchCatch(cl, c.val); ok {
					scope := newEnv(env, false)
					if bind != "" {
						scope.vars[bind] = &Cell{V: c.val}
					}
					c, v = it.block(n.B[1+i], scope, false)
					kill(scope)
					break
				}
			}
		}
		if n.I == 1 {
			if c.kind != cNormal {
				it.events["finally_nonnormal"]++
				it.events[fmt.Sprintf("finally_%d", c.kind)]++
			}
			f, _ := it.block(n.B[len(n.B)-1], env, false)
			if f.kind != cNormal {
				c = f
			}
		}
		if n.S != "" && c.kind == cNormal {
			env.vars[n.S] = &Cell{V: v}
		}
		return c, v
	}
	panic("mini: unknown stmt " + n.K)
}

// loopCompl decides what a loop does with the completion of its body.
func (it *interp) loopCompl(c compl, label string) (stop bool, out compl) {
	switch c.kind {
	case cNormal:
		return false, normal
	case cBreak, cContinue:
		if c.label == "" || c.label == label {
			if c.kind == cBreak {
				return true, normal
			}
			return false, normal
		}
		it.events["label_jump2"]++
		return true, c
	}
	return true, c
}

// matchCatch: clause.S is the printed pattern; clause.K describes it.
func matchCatch(cl *N, v any) (bind string, ok bool) {
	switch cl.K {
	case "csym": // :a  or  :a || :b
		s, is := v.(Sym)
		if !is {
			return "", false
		}
		for _, alt := range cl.C {
			if Sym(alt.S) == s {
				return cl.L, true
			}
		}
		return "", false
	case "cstr":
		_, is := v.(string)
		return cl.L, is
	case "cany":
		return cl.L, true
	}
	return "", false
}

func (it *interp) cell(name string, env *Env, write bool) *Cell {
	crossed := false
	for s := env; s != nil; s = s.parent {
		if c, ok := s.vars[name]; ok {
			if crossed {
				it.events["upvalue_access"]++
				if write {
					it.events["upvalue_write"]++
				}
				if c.Dead {
					it.events["closed_upvalue_access"]++
					if c.ByThrow {
						// the defining frame / block was unwound by a throw and the variable is still used
						it.events["unwound_upvalue_access"]++
					}
				}
				c.Captured = true
			} else if c.Captured && write {
				it.events["outer_write_after_capture"]++
			} else if c.Captured {
				it.events["outer_read_after_capture"]++
			}
			return c
		}
		if s.fn {
			crossed = true
		}
	}
	panic("mini: unbound variable " + name)
}

func (it *interp) expr(n *N, env *Env) (any, compl) {
	it.tick()
	switch n.K {
	case "int":
		return bi(n.I), normal
	case "bool":
		return n.I != 0, normal
	case "str":
		return n.S, normal
	case "nil":
		return NilV{}, normal
	case "var":
		return it.cell(n.S, env, false).V, normal
	case "paren":
		return it.expr(n.C[0], env)
	case "not":
		v, c := it.expr(n.C[0], env)
		if c.kind != cNormal {
			return nil, c
		}
		return !truthy(v), normal
	case "len":
		return bi(int64(len(it.cell(n.S, env, false).V.(*List).E))), normal
	case "list":
		l := &List{}
		for _, e := range n.C {
			v, c := it.expr(e, env)
			if c.kind != cNormal {
				return nil, c
			}
			l.E = append(l.E, v)
		}
		return l, normal
	case "range":
		a, c := it.expr(n.C[0], env)
		if c.kind != cNormal {
			return nil, c
		}
		b, c := it.expr(n.C[1], env)
		if c.kind != cNormal {
			return nil, c
		}
		return [2]*big.Int{a.(*big.Int), b.(*big.Int)}, normal
	case "interp":
		v, c := it.expr(n.C[0], env)
		if c.kind != cNormal {
			return nil, c
		}
		return n.S + ToString(v), normal
	case "ifx":
		v, c := it.expr(n.C[0], env)
		if c.kind != cNormal {
			return nil, c
		}
		if truthy(v) {
			return it.expr(n.C[1], env)
		}
		return it.expr(n.C[2], env)
	case "bin":
		l, c := it.expr(n.C[0], env)
		if c.kind != cNormal {
			return nil, c
		}
		switch n.S {
		case "&&":
			if !truthy(l) {
				it.events["short_circuit_skip"]++
				return l, normal
			}
			return it.expr(n.C[1], env)
		case "||":
			if truthy(l) {
				it.events["short_circuit_skip"]++
				return l, normal
			}
			return it.expr(n.C[1], env)
		case "??":
			if _, isNil := l.(NilV); !isNil {
				it.events["short_circuit_skip"]++
				return l, normal
			}
			return it.expr(n.C[1], env)
		}
		r, c := it.expr(n.C[1], env)
		if c.kind != cNormal {
			return nil, c
		}
		if ls, ok := l.(string); ok {
			switch n.S {
			case "+":
				return ls + r.(string), normal
			case "==":
				return ls == r.(string), normal
			case "!=":
				return ls != r.(string), normal
			}
		}
		if lb, ok := l.(bool); ok {
			switch n.S {
			case "==":
				return lb == r.(bool), normal
			case "!=":
				return lb != r.(bool), normal
			}
		}
		a, b := l.(*big.Int), r.(*big.Int)
		switch n.S {
		case "+":
			return new(big.Int).Add(a, b), normal
		case "-":
			return new(big.Int).Sub(a, b), normal
		case "*":
			return new(big.Int).Mul(a, b), normal
		case "%":
			return new(big.Int).Rem(a, b), normal
		case "<":
			return a.Cmp(b) < 0, normal
		case "<=":
			return a.Cmp(b) <= 0, normal
		case ">":
			return a.Cmp(b) > 0, normal
		case ">=":
			return a.Cmp(b) >= 0, normal
		case "==":
			return a.Cmp(b) == 0, normal
		case "!=":
			return a.Cmp(b) != 0, normal
		}
		panic("mini: bad operator " + n.S)
	case "call":
		var args []any
		for _, a := range n.C {
			v, c := it.expr(a, env)
			if c.kind != cNormal {
				return nil, c
			}
			args = append(args, v)
		}
		switch n.S {
		case "tr", "tb":
			fmt.Fprintf(&it.out, "e%s\n", ToString(args[0]))
			return args[1], normal
		}
		if n.S == "th" {
			fmt.Fprintf(&it.out, "h%s\n", ToString(args[0]))
			if args[1].(*big.Int).Cmp(bi(2)) > 0 {
				it.events["th_throw"]++
				return nil, compl{kind: cThrow, val: Sym("a")}
			}
			return args[1], normal
		}
		if n.S == "deep" {
			it.events["deep_call"]++
			return it.callClosure(args[1].(*Closure), nil)
		}
		if m, ok := it.methods[n.S]; ok {
			fenv := newEnv(nil, true)
			for i, p := range m.X {
				fenv.vars[p.S] = &Cell{V: args[i]}
			}
			return it.finishCall(it.callBody(m.B[0], fenv), m.B[0], fenv)
		}
		cl, ok := it.cell(n.S, env, false).V.(*Closure)
		if !ok {
			panic("mini: call of non-closure " + n.S)
		}
		return it.callClosure(cl, args)
	}
	panic("mini: unknown expr " + n.K)
}

func (it *interp) callClosure(cl *Closure, args []any) (any, compl) {
	it.events["closure_call"]++
	fenv := newEnv(cl.Env, true)
	for i, p := range cl.Fn.X {
		fenv.vars[p.S] = &Cell{V: args[i]}
	}
	return it.finishCall(it.callBody(cl.Fn.B[0], fenv), cl.Fn.B[0], fenv)
}

// lastVals remembers the value of the last statement of function bodies.
func (it *interp) finishCall(c compl, body []*N, env *Env) (any, compl) {
	switch c.kind {
	case cReturn:
		return c.val, normal
	case cThrow:
		return nil, c
	case cNormal:
		return c.val, normal
	}
	panic("mini: break/continue escaped a function")
}

// ToString mirrors Elk's to_string for the value kinds MiniElk prints.
func ToString(v any) string {
	switch x := v.(type) {
	case *big.Int:
		return x.String()
	case string:
		return x
	case bool:
		if x {
			return "true"
		}
		return "false"
	case NilV:
		return ""
	case Sym:
		return string(x)
	}
	return fmt.Sprint(v)
}

// Inspect mirrors Elk's inspect.
func Inspect(v any) string {
	switch x := v.(type) {
	case string:
		return strLit(x)
	case Sym:
		return ":" + string(x)
	case NilV:
		return "nil"
	}
	return ToString(v)
}
