package mini

import (
	"fmt"
	"strings"
)

// Source prints the program as Elk source.
func (p *Program) Source() string {
	var b strings.Builder
	if p.UsesTr {
		b.WriteString("def tr(id: Int, v: Int): Int\n  println(\"e${id}\")\n  v\nend\n")
		b.WriteString("def tb(id: Int, v: Bool): Bool\n  println(\"e${id}\")\n  v\nend\n")
	}
	if p.UsesDeep {
		// non-tail recursion with a few locals per frame, then the closure is called at the bottom
		b.WriteString("def deep(n: Int, f: ||: Int): Int\n  a := n + 1\n  b := a * 2\n  if n <= 0\n    r := f()\n    return r\n  end\n  r := deep(n - 1, f)\n  (r + b) - b\nend\n")
	}
	if p.UsesTh {
		// a bytecode method that throws: the callee of explicit `return th(...)` statements (tail calls)
		b.WriteString("def th(id: Int, v: Int): Int\n  println(\"h${id}\")\n  throw unchecked :a if v > 2\n  v\nend\n")
	}
	for _, m := range p.Methods {
		printStmt(&b, m, 0)
	}
	for _, s := range p.Main {
		printStmt(&b, s, 0)
	}
	return b.String()
}

func ind(b *strings.Builder, n int) { b.WriteString(strings.Repeat("  ", n)) }

func printBlock(b *strings.Builder, blk []*N, d int) {
	for _, s := range blk {
		printStmt(b, s, d)
	}
}

func printStmt(b *strings.Builder, n *N, d int) {
	ind(b, d)
	lab := ""
	if n.L != "" {
		lab = "$" + n.L + ": "
	}
	switch n.K {
	case "def":
		var ps []string
		for _, p := range n.X {
			ps = append(ps, p.S+": "+p.T.Elk())
		}
		rt := "Int"
		if n.T == TFn0 || n.T == TFn1 {
			rt = "(" + n.T.Elk() + ")"
		}
		star := ""
		if n.I == 1 {
			star = "*" // generator method
		}
		fmt.Fprintf(b, "def %s%s(%s): %s\n", star, n.S, strings.Join(ps, ", "), rt)
		printBlock(b, n.B[0], d+1)
		ind(b, d)
		b.WriteString("end\n")
	case "print":
		e := Expr(n.C[0])
		if n.C[0].T == TBool {
			e = "(" + e + ").inspect"
		} else if n.C[0].T == TNInt {
			e = "(" + e + " ?? (-99))" // Nil declares no inspect/to_string in the headers
		}
		fmt.Fprintf(b, "println(%s)\n", e)
	case "yield":
		fmt.Fprintf(b, "yield %s\n", Expr(n.C[0]))
	case "trace":
		fmt.Fprintf(b, "println(\"t%d\")\n", n.I)
	case "decl":
		if n.T == TNInt || n.T == TLInt || n.T == TFn0 || n.T == TFn1 || n.C[0].K == "ifx" {
			fmt.Fprintf(b, "var %s: %s = %s\n", n.S, n.T.Elk(), Expr(n.C[0]))
		} else {
			fmt.Fprintf(b, "%s := %s\n", n.S, Expr(n.C[0]))
		}
	case "closure":
		// c := |p: Int|: Int -> body end
		hdr := "||: Int"
		if n.T == TFn1 {
			hdr = "|" + n.X[0].S + ": Int|: Int"
		}
		arrow := "->"
		if n.I == 1 {
			arrow = "~>"
		}
		fmt.Fprintf(b, "%s := %s %s\n", n.S, hdr, arrow)
		printBlock(b, n.B[0], d+1)
		ind(b, d)
		b.WriteString("end\n")
	case "assign":
		fmt.Fprintf(b, "%s %s %s\n", n.S, n.L2(), Expr(n.C[0]))
	case "push":
		fmt.Fprintf(b, "%s << %s\n", n.S, Expr(n.C[0]))
	case "expr":
		fmt.Fprintf(b, "%s\n", Expr(n.C[0]))
	case "if", "unless":
		fmt.Fprintf(b, "%s %s\n", n.K, Expr(n.C[0]))
		printBlock(b, n.B[0], d+1)
		if len(n.B) > 1 && len(n.B[1]) > 0 {
			ind(b, d)
			b.WriteString("else\n")
			printBlock(b, n.B[1], d+1)
		}
		ind(b, d)
		b.WriteString("end\n")
	case "while", "until":
		fmt.Fprintf(b, "%s%s %s\n", lab, n.K, Expr(n.C[0]))
		printBlock(b, n.B[0], d+1)
		ind(b, d)
		b.WriteString("end\n")
	case "loop":
		fmt.Fprintf(b, "%sloop\n", lab)
		printBlock(b, n.B[0], d+1)
		ind(b, d)
		b.WriteString("end\n")
	case "dowhile":
		fmt.Fprintf(b, "%sdo\n", lab)
		printBlock(b, n.B[0], d+1)
		ind(b, d)
		fmt.Fprintf(b, "end while %s\n", Expr(n.C[0]))
	case "forin":
		fmt.Fprintf(b, "%sfor %s in %s\n", lab, n.S, Expr(n.C[0]))
		printBlock(b, n.B[0], d+1)
		ind(b, d)
		b.WriteString("end\n")
	case "fornum":
		fmt.Fprintf(b, "%sfornum %s := %d; %s < %d; %s += 1\n", lab, n.S, n.C[0].I, n.S, n.I, n.S)
		printBlock(b, n.B[0], d+1)
		ind(b, d)
		b.WriteString("end\n")
	case "break", "continue":
		b.WriteString(n.K)
		if n.S != "" {
			b.WriteString("[" + n.S + "]")
		}
		if len(n.C) > 0 {
			b.WriteString(" if " + Expr(n.C[0]))
		}
		b.WriteString("\n")
	case "return":
		b.WriteString("return " + Expr(n.C[0]))
		if len(n.C) > 1 {
			b.WriteString(" if " + Expr(n.C[1]))
		}
		b.WriteString("\n")
	case "throw":
		b.WriteString("throw unchecked " + n.S)
		if len(n.C) > 0 {
			b.WriteString(" if " + Expr(n.C[0]))
		}
		b.WriteString("\n")
	case "defer":
		b.WriteString("defer ")
		var sb strings.Builder
		printStmt(&sb, n.B[0][0], 0)
		b.WriteString(sb.String())
	case "do":
		if n.S != "" { // value-producing: v := do ... end
			fmt.Fprintf(b, "%s := do\n", n.S)
		} else {
			b.WriteString("do\n")
		}
		printBlock(b, n.B[0], d+1)
		for i, c := range n.X {
			ind(b, d)
			fmt.Fprintf(b, "catch %s\n", c.S)
			printBlock(b, n.B[1+i], d+1)
		}
		if n.I == 1 {
			ind(b, d)
			b.WriteString("finally\n")
			printBlock(b, n.B[len(n.B)-1], d+1)
		}
		ind(b, d)
		b.WriteString("end\n")
	default:
		fmt.Fprintf(b, "# unknown stmt %s\n", n.K)
	}
}

// L2 returns the assignment operator stored in L for "assign" nodes.
func (n *N) L2() string {
	if n.L == "" {
		return "="
	}
	return n.L
}

func strLit(s string) string {
	r := strings.NewReplacer("\\", "\\\\", "\"", "\\\"", "\n", "\\n", "$", "\\$", "#", "\\#")
	return "\"" + r.Replace(s) + "\""
}

// Expr prints an expression (fully parenthesised where nesting occurs).
func Expr(n *N) string {
	switch n.K {
	case "int":
		if n.I < 0 {
			return fmt.Sprintf("(%d)", n.I)
		}
		return fmt.Sprintf("%d", n.I)
	case "bool":
		if n.I != 0 {
			return "true"
		}
		return "false"
	case "str":
		return strLit(n.S)
	case "nil":
		return "nil"
	case "var":
		return n.S
	case "bin":
		return "(" + Expr(n.C[0]) + " " + n.S + " " + Expr(n.C[1]) + ")"
	case "not":
		return "(!" + Expr(n.C[0]) + ")"
	case "call":
		var as []string
		for _, a := range n.C {
			as = append(as, Expr(a))
		}
		return n.S + "(" + strings.Join(as, ", ") + ")"
	case "interp":
		return "\"" + n.S + "${" + Expr(n.C[0]) + "}\""
	case "len":
		return n.S + ".length"
	case "list":
		var as []string
		for _, a := range n.C {
			as = append(as, Expr(a))
		}
		return "[" + strings.Join(as, ", ") + "]"
	case "range":
		return Expr(n.C[0]) + "..." + Expr(n.C[1])
	case "paren":
		// redundant parentheses (C12 edits); transparent for evaluation
		return "(" + Expr(n.C[0]) + ")"
	case "ifx":
		return "(if " + Expr(n.C[0]) + " then " + Expr(n.C[1]) + " else " + Expr(n.C[2]) + ")"
	}
	return "/*?" + n.K + "*/"
}
