// Package mini is "MiniElk": a small typed program AST with rapid generators, a
// printer to Elk source and a Go reference interpreter.  Programs are
// well-typed and terminating by construction; every random choice is a rapid
// draw so that rapid shrinks whole programs.
package mini

import "math/big"

type Type int

const (
	TInt Type = iota
	TBool
	TStr
	TNInt // Int?
	TFn0  // ||: Int
	TFn1  // |Int|: Int
	TLInt // List[Int]
	TVoid
)

func (t Type) Elk() string {
	switch t {
	case TInt:
		return "Int"
	case TBool:
		return "Bool"
	case TStr:
		return "String"
	case TNInt:
		return "Int?"
	case TFn0:
		return "||: Int"
	case TFn1:
		return "|p: Int|: Int"
	case TLInt:
		return "List[Int]"
	}
	return "void"
}

// N is a generic AST node.
type N struct {
	K string // kind
	S string // name / operator / text
	I int64  // literal / id / bound
	T Type
	C []*N   // child expressions
	B [][]*N // statement blocks
	L string // loop label ("" = none)
	X []*N   // extra: catch clauses / params
}

// Program = method definitions + main statements.
type Program struct {
	Methods  []*N
	Main     []*N
	UsesTr   bool
	UsesDeep bool `json:",omitempty"`
	UsesTh   bool `json:",omitempty"`
	// number of catch clauses generated under a known-finding restriction
	Restricted int `json:",omitempty"`
	// number of do expressions generated without catch clauses under the catch-keeps-pending-operands restriction
	RestrictedPending int `json:",omitempty"`
}

// --- runtime values of the reference interpreter -----------------------------

type Sym string
type NilV struct{}

type Cell struct {
	V        any
	Dead     bool // defining scope has exited
	Captured bool
	ByThrow  bool // ... and it was left by a throw (frame or block unwound, not returned from)
}

type Closure struct {
	Fn  *N
	Env *Env
}

type List struct{ E []any }

type Env struct {
	vars   map[string]*Cell
	parent *Env
	fn     bool // function boundary
}

func newEnv(parent *Env, fn bool) *Env { return &Env{vars: map[string]*Cell{}, parent: parent, fn: fn} }

func (e *Env) lookup(name string) *Cell {
	for s := e; s != nil; s = s.parent {
		if c, ok := s.vars[name]; ok {
			return c
		}
	}
	return nil
}

func bi(n int64) *big.Int { return big.NewInt(n) }
