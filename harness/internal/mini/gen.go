package mini

import (
	"fmt"

	"verif/internal/vgen"

	"pgregory.net/rapid"
)

// Profile switches generator features.
type Profile struct {
	Closures    bool
	Throw       bool
	Defer       bool
	Labels      bool
	Methods     bool
	Lists       bool
	ShortCirc   bool
	MaxStmts    int
	MaxDepth    int
	LoopBound   int
	ClosureBias int  // higher = more closure statements
	Makers      bool // methods that return closures over their own locals and parameters
	Deep        bool // deep(n, f): call a closure below n extra (non-tail) frames
	// generator methods (def *g ... yield e ...) consumed by for-in loops in main; the reference
	// interpreter does not support them: only for checks that compare the implementation with itself (C12)
	Generators bool
	// known finding (C14 catch-exit-skips-finally): no jump and no call inside a catch
	// clause of a do expression that also has a finally clause
	NoExitFromCatchWithFinally bool
	// known finding (C14 catch-keeps-pending-operands): a catch handler does not restore the operand
	// stack depth, so a do expression with catch clauses is not generated inside a catch clause or a
	// finally block of the same function (its stale operands would corrupt the enclosing handler)
	NoCatchInsideHandler bool
}

var Control = Profile{Closures: true, Throw: true, Defer: true, Labels: true, Methods: true, Lists: true, ShortCirc: true, MaxStmts: 45, MaxDepth: 4, LoopBound: 3, ClosureBias: 1}
var ClosureP = Profile{Makers: true, Deep: true, Closures: true, Throw: false, Defer: false, Labels: true, Methods: true, Lists: true, ShortCirc: false, MaxStmts: 40, MaxDepth: 3, LoopBound: 3, ClosureBias: 5}

type vinfo struct {
	name string
	t    Type
	ro   bool // loop counters, closures, induction variables: never assigned by generated code
}

type loopCtx struct {
	label string
}

type fnCtx struct {
	loops     []loopCtx
	inFinally int // > 0: no jumps (break/continue/return/throw) are generated
	noCalls   int // > 0: no method / closure calls are generated
	isFn      bool
	isGen     bool // generator method: `yield` statements are generated
	noReturn  bool // body must not contain `return` (the method does not return Int)
	inHandler int  // > 0: inside a catch clause or a finally block
	// > 0: inside the body of a do expression that has a finally clause, or after a defer in this
	// function: exits are what the property is about, so jump statements get more weight there
	exitBias int
}

type G struct {
	t        *rapid.T
	p        Profile
	scopes   [][]vinfo
	fns      []*fnCtx
	meths    []*N
	makers   []*N
	usesDeep bool
	usesTh   bool
	id       int
	budget   int
	usesTr   bool
	names    int
	// exclude names a variable that vars() must not return (see makeConditional)
	exclude string
	// Restricted counts catch clauses generated under the NoExitFromCatchWithFinally restriction
	Restricted        int
	RestrictedPending int
}

func (g *G) draw(n int, label string) int    { return vgen.Pick(g.t, n, label) }
func (g *G) chance(n int, label string) bool { return g.draw(n, label) == 0 }

func (g *G) fresh(prefix string) string {
	g.names++
	return fmt.Sprintf("%s%d", prefix, g.names)
}

// lookupType returns the type of a visible variable (TVoid if name is a method).
func (g *G) lookupType(name string) Type {
	for i := len(g.scopes) - 1; i >= 0; i-- {
		for _, v := range g.scopes[i] {
			if v.name == name {
				return v.t
			}
		}
	}
	return TVoid
}

func (g *G) push()           { g.scopes = append(g.scopes, nil) }
func (g *G) pop()            { g.scopes = g.scopes[:len(g.scopes)-1] }
func (g *G) declare(v vinfo) { g.scopes[len(g.scopes)-1] = append(g.scopes[len(g.scopes)-1], v) }
func (g *G) fn() *fnCtx      { return g.fns[len(g.fns)-1] }

// visible variables of a type (writable only if w).
func (g *G) vars(t Type, w bool) []vinfo {
	var out []vinfo
	for _, s := range g.scopes {
		for _, v := range s {
			if v.t == t && (!w || !v.ro) && v.name != g.exclude {
				out = append(out, v)
			}
		}
	}
	return out
}

// Gen draws a whole program.
func Gen(t *rapid.T, p Profile) *Program {
	g := &G{t: t, p: p, budget: p.MaxStmts}
	prog := &Program{}
	if p.Methods {
		nm := g.draw(3, "nmethods")
		for i := 0; i < nm; i++ {
			g.genMethod()
		}
	}
	if p.Makers {
		for i := g.draw(3, "nmakers"); i > 0; i-- {
			g.genMaker()
		}
	}
	var gens []*N
	if p.Generators {
		for i := 1 + g.draw(2, "ngens"); i > 0; i-- {
			gens = append(gens, g.genGenerator())
		}
	}
	g.scopes = [][]vinfo{nil}
	g.fns = []*fnCtx{{}}
	prog.Main = g.block(rapid.IntRange(3, 10).Draw(t, "nmain"), 0, false)
	for _, gm := range gens {
		// consume the generator: for v in g(args) println(v) end
		call := &N{K: "call", S: gm.S, T: TLInt}
		for range gm.X {
			call.C = append(call.C, &N{K: "int", I: int64(g.draw(5, "garg")), T: TInt})
		}
		v := g.fresh("y")
		prog.Main = append(prog.Main, &N{K: "forin", S: v, C: []*N{call}, B: [][]*N{{{K: "print", C: []*N{{K: "var", S: v, T: TInt}}}}}})
	}
	prog.Methods = append(append(g.meths, g.makers...), gens...)
	prog.UsesDeep = g.usesDeep
	prog.UsesTh = g.usesTh
	prog.UsesTr = g.usesTr
	prog.Restricted = g.Restricted
	prog.RestrictedPending = g.RestrictedPending
	return prog
}

func (g *G) genMethod() {
	name := g.fresh("m")
	np := g.draw(3, "nparams")
	m := &N{K: "def", S: name, T: TInt}
	savedScopes, savedFns := g.scopes, g.fns
	g.scopes = [][]vinfo{nil}
	g.fns = []*fnCtx{{isFn: true}}
	for i := 0; i < np; i++ {
		pn := g.fresh("p")
		m.X = append(m.X, &N{K: "param", S: pn, T: TInt})
		g.declare(vinfo{pn, TInt, false})
	}
	body := g.block(rapid.IntRange(1, 6).Draw(g.t, "nbody"), 1, false)
	g.makeConditional(body[len(body)-1])
	body = append(body, &N{K: "expr", C: []*N{g.expr(TInt, 2)}})
	m.B = [][]*N{body}
	g.scopes, g.fns = savedScopes, savedFns
	g.meths = append(g.meths, m)
}

// genGenerator generates a generator method; it is not callable from generated expressions.
func (g *G) genGenerator() *N {
	name := g.fresh("g")
	m := &N{K: "def", S: name, T: TInt, I: 1}
	savedScopes, savedFns := g.scopes, g.fns
	g.scopes = [][]vinfo{nil}
	g.fns = []*fnCtx{{isFn: true, isGen: true}}
	for i := g.draw(3, "ngparams"); i > 0; i-- {
		pn := g.fresh("p")
		m.X = append(m.X, &N{K: "param", S: pn, T: TInt})
		g.declare(vinfo{pn, TInt, true}) // the checker does not allow reassigning a generator's parameters
	}
	body := []*N{{K: "yield", C: []*N{g.expr(TInt, 1)}}}
	body = append(body, g.block(rapid.IntRange(2, 7).Draw(g.t, "ngbody"), 1, true)...)
	g.makeConditional(body[len(body)-1])
	body = append(body, &N{K: "expr", C: []*N{g.expr(TInt, 2)}})
	m.B = [][]*N{body}
	g.scopes, g.fns = savedScopes, savedFns
	return m
}

// genMaker generates a method that returns a closure over its parameters and locals.
func (g *G) genMaker() {
	name := g.fresh("mk")
	m := &N{K: "def", S: name, T: TFn0}
	savedScopes, savedFns := g.scopes, g.fns
	g.scopes = [][]vinfo{nil}
	g.fns = []*fnCtx{{isFn: true, noReturn: true}}
	for i := g.draw(3, "nmkparams"); i > 0; i-- {
		pn := g.fresh("p")
		m.X = append(m.X, &N{K: "param", S: pn, T: TInt})
		g.declare(vinfo{pn, TInt, false})
	}
	body := g.block(rapid.IntRange(1, 4).Draw(g.t, "nmkbody"), 1, true)
	g.makeConditional(body[len(body)-1])
	// the closure that escapes (statement form, then named as the result)
	cl := g.closure(1)
	body = append(body, cl...)
	var esc *N
	for _, c := range cl {
		if c.K == "closure" {
			esc = c
		}
	}
	body = append(body, &N{K: "expr", C: []*N{{K: "var", S: esc.S, T: esc.T}}})
	m.T = esc.T
	m.B = [][]*N{body}
	g.scopes, g.fns = savedScopes, savedFns
	g.makers = append(g.makers, m)
}

// block generates n statements in a new scope.
func (g *G) block(n, depth int, sameScope bool) []*N {
	if !sameScope {
		g.push()
		defer g.pop()
	}
	var out []*N
	for i := 0; i < n && g.budget > 0; i++ {
		// an unconditional jump may only be the last statement of a block: code after it would be
		// unreachable and the checker types the rest of the block (and do-expressions) as `never`
		if len(out) > 0 {
			g.makeConditional(out[len(out)-1])
		}
		out = append(out, g.stmt(depth)...)
	}
	if len(out) == 0 {
		g.id++
		out = append(out, &N{K: "trace", I: int64(g.id)})
	}
	return out
}

func isJump(n *N) bool {
	return n.K == "break" || n.K == "continue" || n.K == "return" || n.K == "throw"
}

// makeConditional gives an unconditional jump a condition the checker cannot decide statically.
func (g *G) makeConditional(n *N) {
	if !isJump(n) {
		// a compound statement all of whose paths jump is typed `never` as well
		if n.K == "do" && n.S != "" {
			// the variable the do expression initialises is not visible inside it
			saved := g.exclude
			g.exclude = n.S
			defer func() { g.exclude = saved }()
		}
		for _, b := range n.B {
			if n.K == "closure" || n.K == "defer" {
				break
			}
			for _, s := range b {
				if diverges(s) {
					g.makeConditional(s)
				}
			}
		}
		return
	}
	has := (n.K == "return" && len(n.C) > 1) || (n.K != "return" && len(n.C) > 0)
	if has {
		return
	}
	cond := g.nonConstCond()
	if cond == nil {
		// no variable in scope: turn the jump into a trace statement
		g.id++
		*n = N{K: "trace", I: int64(g.id)}
		return
	}
	n.C = append(n.C, cond)
}

// diverges reports whether every path through the statement ends in a jump
// (the checker then types the statement, and what follows it, as `never`).
func diverges(n *N) bool {
	switch n.K {
	case "break", "continue", "throw":
		return len(n.C) == 0
	case "return":
		return len(n.C) <= 1
	case "do":
		nb := 1 + len(n.X)
		for i := 0; i < nb; i++ {
			if !blockDiverges(n.B[i]) {
				return false
			}
		}
		return true
	case "if", "unless":
		return len(n.B) > 1 && len(n.B[1]) > 0 && blockDiverges(n.B[0]) && blockDiverges(n.B[1])
	}
	return false
}

func blockDiverges(b []*N) bool {
	for _, s := range b {
		if diverges(s) {
			return true
		}
	}
	return false
}

func (g *G) nonConstCond() *N {
	if vs := g.vars(TBool, false); len(vs) > 0 && g.chance(2, "ncb") {
		return &N{K: "var", S: vs[g.draw(len(vs), "ncbv")].name, T: TBool}
	}
	vs := g.vars(TInt, false)
	if len(vs) == 0 {
		return nil
	}
	v := &N{K: "var", S: vs[g.draw(len(vs), "nciv")].name, T: TInt}
	return &N{K: "bin", S: []string{"<", "<=", ">", ">=", "==", "!="}[g.draw(6, "nccmp")], T: TBool, C: []*N{v, {K: "int", I: int64(rapid.IntRange(-2, 6).Draw(g.t, "ncn")), T: TInt}}}
}

func (g *G) trace() *N {
	g.id++
	return &N{K: "trace", I: int64(g.id)}
}

func (g *G) stmt(depth int) []*N {
	g.budget--
	// rapid's integer draws favour small values: interesting statement kinds come first
	var kinds []string
	f := g.fn()
	if f.inFinally == 0 {
		if len(f.loops) > 0 {
			kinds = append(kinds, "break", "continue")
		}
		if g.p.Throw {
			kinds = append(kinds, "throw")
		}
		if f.isFn && !f.noReturn {
			kinds = append(kinds, "return")
		}
		if f.exitBias > 0 {
			kinds = append(kinds, kinds...)
			kinds = append(kinds, kinds...)
		}
	}
	if depth < g.p.MaxDepth {
		if g.p.Throw {
			kinds = append(kinds, "do", "do")
		}
		kinds = append(kinds, "loop", "loop", "if")
		// no closures inside generator bodies: a closure that captures a generator's local reads a stale
		// stack slot after a yield (recorded C15 finding), which would make behaviour layout-dependent
		if g.p.Closures && !f.isGen {
			for i := 0; i < g.p.ClosureBias; i++ {
				kinds = append(kinds, "closure")
			}
		}
	}
	if f.isGen && f.inFinally == 0 {
		kinds = append(kinds, "yield", "yield")
	}
	if g.p.Defer && f.inFinally == 0 {
		kinds = append(kinds, "defer")
	}
	if g.p.Closures {
		for i := 0; i < g.p.ClosureBias; i++ {
			kinds = append(kinds, "callstmt")
		}
	}
	if len(g.makers) > 0 && f.noCalls == 0 {
		// (a maker's body may throw: no maker calls where calls are excluded)
		kinds = append(kinds, "mkdecl")
	}
	if g.p.Throw && g.p.Methods && f.isFn && !f.noReturn && !f.isGen && depth < g.p.MaxDepth && f.inFinally == 0 && f.inHandler == 0 && f.noCalls == 0 {
		kinds = append(kinds, "tailcatch", "tailcatch", "tailcatch", "tailcatch")
	}
	if g.p.Throw && g.p.Closures && g.p.ClosureBias > 1 && depth < g.p.MaxDepth && !f.isGen && f.inFinally == 0 && f.inHandler == 0 && f.noCalls == 0 {
		kinds = append(kinds, "unwind", "unwind")
	}
	if g.p.ClosureBias > 1 && len(g.vars(TFn0, false)) > 0 {
		kinds = append(kinds, "fnvar", "fnassign")
	}
	kinds = append(kinds, "assign", "decl", "assign", "decl", "print", "trace")
	if g.p.Lists {
		kinds = append(kinds, "push")
	}
	switch k := kinds[g.draw(len(kinds), "stmt")]; k {
	case "trace":
		return []*N{g.trace()}
	case "yield":
		return []*N{{K: "yield", C: []*N{g.expr(TInt, 2)}}}
	case "print":
		t := []Type{TInt, TInt, TStr, TBool, TNInt}[g.draw(5, "pt")]
		return []*N{{K: "print", C: []*N{g.expr(t, 2)}}}
	case "decl":
		t := []Type{TInt, TInt, TInt, TBool, TStr, TNInt, TLInt}[g.draw(7, "dt")]
		if t == TLInt && !g.p.Lists {
			t = TInt
		}
		name := g.fresh("v")
		init := g.expr(t, 2)
		if t == TInt && g.chance(5, "ifx") {
			// an if expression is only generated as a type-annotated initialiser: a union of integer
			// literal types (also produced by == narrowing) is typed CoercibleNumeric under an operator
			init = &N{K: "ifx", T: TInt, C: []*N{g.expr(TBool, 1), g.expr(TInt, 1), g.expr(TInt, 1)}}
		}
		n := &N{K: "decl", S: name, T: t, C: []*N{init}}
		g.declare(vinfo{name, t, t == TBool})
		return []*N{n}
	case "assign":
		t := []Type{TInt, TInt, TInt, TBool, TStr, TNInt}[g.draw(6, "at")]
		vs := g.vars(t, true)
		if len(vs) == 0 {
			return []*N{g.trace()}
		}
		v := vs[g.draw(len(vs), "av")]
		op := "="
		if t == TInt {
			op = []string{"=", "+=", "-=", "*=", "+="}[g.draw(5, "aop")]
		}
		e := g.expr(t, 2)
		if op == "*=" {
			e = &N{K: "int", I: int64(g.draw(4, "mul")) - 1, T: TInt}
		}
		return []*N{{K: "assign", S: v.name, L: op, C: []*N{e}}}
	case "fnvar":
		// a reassignable closure variable: closures of inner scopes escape through it
		vs := g.vars(TFn0, false)
		name := g.fresh("h")
		n := &N{K: "decl", S: name, T: TFn0, C: []*N{{K: "var", S: vs[g.draw(len(vs), "fv")].name, T: TFn0}}}
		g.declare(vinfo{name, TFn0, false})
		return []*N{n}
	case "fnassign":
		ws := g.vars(TFn0, true)
		vs := g.vars(TFn0, false)
		if len(ws) == 0 {
			return []*N{g.trace()}
		}
		// prefer the innermost closure (it captures the innermost variables)
		src := vs[len(vs)-1-g.draw(len(vs), "fa")%len(vs)]
		return []*N{{K: "assign", S: ws[g.draw(len(ws), "fw")].name, L: "=", C: []*N{{K: "var", S: src.name, T: TFn0}}}}
	case "unwind":
		return g.unwind()
	case "tailcatch":
		// do return th(..) catch .. end: the call is in tail position of the function, but the handlers of the
		// enclosing do still have to see what it throws
		g.usesTh = true
		g.names++
		arg := &N{K: "int", I: int64(g.draw(6, "tcv")), T: TInt}
		var argN *N = arg
		if vs := g.vars(TInt, false); len(vs) > 0 && g.chance(3, "tcvar") {
			argN = &N{K: "var", S: vs[g.draw(len(vs), "tcvv")].name, T: TInt}
		}
		ret := &N{K: "return", C: []*N{{K: "call", S: "th", T: TInt, C: []*N{{K: "int", I: int64(g.names), T: TInt}, argN}}}}
		if g.chance(3, "tccond") {
			if c := g.nonConstCond(); c != nil {
				ret.C = append(ret.C, c)
			}
		}
		cl := &N{K: "csym", S: ":a", C: []*N{{S: "a"}}}
		if g.chance(3, "tcany") {
			cl = &N{K: "cany", L: g.fresh("e")}
			cl.S = cl.L
		}
		do := &N{K: "do", X: []*N{cl}, B: [][]*N{{g.trace(), ret}, {g.trace()}}}
		if g.chance(3, "tcfin") {
			do.I = 1
			do.B = append(do.B, []*N{g.trace()})
		}
		return []*N{do}
	case "mkdecl":
		m := g.makers[g.draw(len(g.makers), "maker")]
		call := &N{K: "call", S: m.S, T: m.T}
		for range m.X {
			call.C = append(call.C, g.expr(TInt, 1))
		}
		name := g.fresh("f")
		g.declare(vinfo{name, m.T, true})
		out := []*N{{K: "decl", S: name, T: m.T, C: []*N{call}}}
		// use the closure after the call that defined its variables has returned
		for i := g.draw(3, "nmkuse"); i > 0 && g.fn().noCalls == 0; i-- {
			use := &N{K: "call", S: name, T: TInt}
			if m.T == TFn1 {
				use.C = []*N{g.expr(TInt, 0)}
			}
			out = append(out, &N{K: "print", C: []*N{use}})
		}
		return out
	case "push":
		vs := g.vars(TLInt, true)
		if len(vs) == 0 {
			return []*N{g.trace()}
		}
		return []*N{{K: "push", S: vs[g.draw(len(vs), "lv")].name, C: []*N{g.expr(TInt, 1)}}}
	case "if":
		n := &N{K: []string{"if", "if", "unless"}[g.draw(3, "ifk")], C: []*N{g.expr(TBool, 2)}}
		n.B = append(n.B, g.block(rapid.IntRange(1, 3).Draw(g.t, "nthen"), depth+1, false))
		if g.chance(2, "else") {
			n.B = append(n.B, g.block(rapid.IntRange(1, 3).Draw(g.t, "nelse"), depth+1, false))
		}
		return []*N{n}
	case "loop":
		return g.loop(depth)
	case "break", "continue":
		n := &N{K: k}
		if g.p.Labels && g.chance(2, "lab") {
			// any enclosing labelled loop of this function
			var labs []string
			for _, l := range f.loops {
				if l.label != "" {
					labs = append(labs, l.label)
				}
			}
			if len(labs) > 0 {
				n.S = labs[g.draw(len(labs), "which")]
			}
		}
		if g.chance(2, "cond") {
			if c := g.nonConstCond(); c != nil {
				n.C = []*N{c}
			}
		}
		return []*N{n}
	case "return":
		n := &N{K: "return", C: []*N{g.expr(TInt, 1)}}
		if g.p.Throw && g.p.Methods && f.noCalls == 0 && g.chance(3, "rth") {
			// explicit return of a call of a throwing bytecode method (a tail call site; inside a do body the
			// enclosing catch / finally clauses still have to see the error)
			g.usesTh = true
			g.names++
			n.C[0] = &N{K: "call", S: "th", T: TInt, C: []*N{{K: "int", I: int64(g.names), T: TInt}, g.expr(TInt, 1)}}
		}
		if g.chance(2, "rcond") {
			if c := g.nonConstCond(); c != nil {
				n.C = append(n.C, c)
			}
		}
		return []*N{n}
	case "throw":
		what := []string{":a", ":b", ":c", "\"boom\""}[g.draw(4, "tv")]
		n := &N{K: "throw", S: what}
		if !g.chance(3, "uncond") {
			if c := g.nonConstCond(); c != nil {
				n.C = []*N{c}
			}
		}
		return []*N{n}
	case "defer":
		var inner *N
		vs := g.vars(TInt, true)
		if len(vs) > 0 && g.chance(2, "dassign") {
			inner = &N{K: "assign", S: vs[g.draw(len(vs), "dv")].name, L: "+=", C: []*N{{K: "int", I: int64(g.draw(5, "dn")), T: TInt}}}
		} else if g.chance(2, "dprint") {
			inner = &N{K: "print", C: []*N{g.expr(TInt, 0)}}
		} else {
			inner = g.trace()
		}
		f.exitBias++ // for the rest of this function
		return []*N{{K: "defer", B: [][]*N{{inner}}}}
	case "do":
		return g.doCatch(depth)
	case "closure":
		return g.closure(depth)
	case "callstmt":
		if e := g.callExpr(1); e != nil {
			return []*N{{K: "expr", C: []*N{e}}}
		}
		return []*N{g.trace()}
	}
	return []*N{g.trace()}
}

func (g *G) loop(depth int) []*N {
	f := g.fn()
	label := ""
	if g.p.Labels && g.chance(2, "haslabel") {
		label = g.fresh("l")
	}
	bound := int64(rapid.IntRange(1, g.p.LoopBound).Draw(g.t, "bound"))
	nbody := rapid.IntRange(1, 4).Draw(g.t, "nloopbody")
	var pre []*N
	n := &N{L: label}
	body := func(first []*N, declare *vinfo) {
		f.loops = append(f.loops, loopCtx{label})
		g.push()
		if declare != nil {
			g.declare(*declare)
		}
		b := append([]*N{}, first...)
		b = append(b, g.block(nbody, depth+1, true)...)
		g.pop()
		f.loops = f.loops[:len(f.loops)-1]
		n.B = [][]*N{b}
	}
	switch kind := []string{"while", "until", "loop", "dowhile", "forin", "forin", "fornum", "forlist"}[g.draw(8, "loopk")]; kind {
	case "while", "until", "loop", "dowhile":
		k := g.fresh("k")
		pre = append(pre, &N{K: "decl", S: k, T: TInt, C: []*N{{K: "int", I: 0, T: TInt}}})
		g.declare(vinfo{k, TInt, true})
		inc := &N{K: "assign", S: k, L: "+=", C: []*N{{K: "int", I: 1, T: TInt}}}
		kv := &N{K: "var", S: k, T: TInt}
		bn := &N{K: "int", I: bound, T: TInt}
		n.K = kind
		switch kind {
		case "while", "dowhile":
			n.C = []*N{{K: "bin", S: "<", T: TBool, C: []*N{kv, bn}}}
			body([]*N{inc}, nil)
		case "until":
			n.C = []*N{{K: "bin", S: ">=", T: TBool, C: []*N{kv, bn}}}
			body([]*N{inc}, nil)
		case "loop":
			brk := &N{K: "break", C: []*N{{K: "bin", S: ">", T: TBool, C: []*N{kv, bn}}}}
			body([]*N{inc, brk}, nil)
		}
	case "forin":
		n.K = "forin"
		n.S = g.fresh("i")
		lo := int64(g.draw(3, "lo"))
		n.C = []*N{{K: "range", C: []*N{{K: "int", I: lo, T: TInt}, {K: "int", I: lo + bound - 1, T: TInt}}}}
		body(nil, &vinfo{n.S, TInt, true})
	case "forlist":
		vs := g.vars(TLInt, false)
		if len(vs) == 0 {
			n.K = "forin"
			n.S = g.fresh("i")
			n.C = []*N{{K: "list", C: []*N{{K: "int", I: 4, T: TInt}, {K: "int", I: 7, T: TInt}}}}
		} else {
			// iterate over a copy-free literal of the current contents is not expressible; iterate the list itself
			// (bodies may push to *other* lists only: the iterated list is hidden from the body)
			n.K = "forin"
			n.S = g.fresh("i")
			v := vs[g.draw(len(vs), "flv")]
			n.C = []*N{{K: "var", S: v.name, T: TLInt}}
			g.hide(v.name)
			defer g.unhide(v.name)
		}
		body(nil, &vinfo{n.S, TInt, true})
	case "fornum":
		n.K = "fornum"
		n.S = g.fresh("q")
		n.I = bound
		n.C = []*N{{K: "int", I: 0, T: TInt}}
		body(nil, &vinfo{n.S, TInt, true})
	}
	return append(pre, n)
}

// hide / unhide make a list variable read-only while it is being iterated.
func (g *G) hide(name string) {
	for _, s := range g.scopes {
		for i := range s {
			if s[i].name == name {
				s[i].ro = true
			}
		}
	}
}
func (g *G) unhide(name string) {
	for _, s := range g.scopes {
		for i := range s {
			if s[i].name == name {
				s[i].ro = false
			}
		}
	}
}

func (g *G) doCatch(depth int) []*N {
	n := &N{K: "do"}
	asExpr := g.chance(3, "doexpr")
	tail := func(b []*N) []*N {
		if asExpr {
			g.makeConditional(b[len(b)-1])
			return append(b, &N{K: "expr", C: []*N{g.expr(TInt, 1)}})
		}
		return b
	}
	nc := g.draw(3, "ncatch")
	if g.p.NoCatchInsideHandler && g.fn().inHandler > 0 && nc > 0 {
		nc = 0
		g.RestrictedPending++
	}
	hasFinally := nc == 0 || g.chance(2, "fin")
	if hasFinally {
		g.fn().exitBias++
	}
	n.B = append(n.B, tail(g.block(rapid.IntRange(1, 4).Draw(g.t, "ndo"), depth+1, false)))
	if hasFinally {
		g.fn().exitBias--
	}
	for i := 0; i < nc; i++ {
		cl := &N{}
		switch g.draw(4, "ck") {
		case 0, 1:
			cl.K = "csym"
			na := 1 + g.draw(2, "nalt")
			pat := ""
			for j := 0; j < na; j++ {
				s := []string{"a", "b", "c"}[g.draw(3, "alt")]
				cl.C = append(cl.C, &N{S: s})
				if j > 0 {
					pat += " || "
				}
				pat += ":" + s
			}
			cl.S = pat
		case 2:
			cl.K = "cstr"
			cl.L = g.fresh("s")
			cl.S = "String() as " + cl.L
		default:
			cl.K = "cany"
			cl.L = g.fresh("e")
			cl.S = cl.L
		}
		n.X = append(n.X, cl)
		g.push()
		if cl.K == "cstr" {
			g.declare(vinfo{cl.L, TStr, true})
		}
		restrict := hasFinally && g.p.NoExitFromCatchWithFinally
		if restrict {
			g.fn().inFinally++
			g.fn().noCalls++
			g.Restricted++
		}
		g.fn().inHandler++
		n.B = append(n.B, tail(g.block(rapid.IntRange(1, 3).Draw(g.t, "ncb"), depth+1, true)))
		g.fn().inHandler--
		if restrict {
			g.fn().inFinally--
			g.fn().noCalls--
		}
		g.pop()
	}
	if hasFinally {
		n.I = 1
		g.fn().inFinally++
		g.fn().inHandler++
		n.B = append(n.B, g.block(rapid.IntRange(1, 2).Draw(g.t, "nfin"), depth+1, false))
		g.fn().inHandler--
		g.fn().inFinally--
	}
	if asExpr {
		n.S = g.fresh("v")
		g.declare(vinfo{n.S, TInt, false})
	}
	return []*N{n}
}

func (g *G) closure(depth int) []*N {
	name := g.fresh("c")
	t := []Type{TFn0, TFn1}[g.draw(2, "arity")]
	n := &N{K: "closure", S: name, T: t}
	outer := g.vars(TInt, true) // writable Int variables of the enclosing scopes
	biased := g.p.ClosureBias > 1
	var lead []*N
	if biased && len(outer) == 0 {
		// make sure there is something to share
		vn := g.fresh("v")
		lead = append(lead, &N{K: "decl", S: vn, T: TInt, C: []*N{{K: "int", I: int64(g.draw(8, "sv")), T: TInt}}})
		g.declare(vinfo{vn, TInt, false})
		outer = g.vars(TInt, true)
	}
	g.push()
	g.fns = append(g.fns, &fnCtx{isFn: true})
	if t == TFn1 {
		pn := g.fresh("p")
		n.X = []*N{{K: "param", S: pn, T: TInt}}
		g.declare(vinfo{pn, TInt, false})
	}
	var pre []*N
	var shared *vinfo
	if biased && len(outer) > 0 && !g.chance(4, "nocap") {
		// the closure updates a variable of an enclosing scope ...
		v := outer[len(outer)-1-g.draw(len(outer), "capv")%len(outer)]
		shared = &v
		pre = append(pre, &N{K: "assign", S: v.name, L: []string{"+=", "+=", "-=", "="}[g.draw(4, "capop")], C: []*N{g.expr(TInt, 1)}})
	}
	body := append(pre, g.block(rapid.IntRange(1, 4).Draw(g.t, "ncl"), depth+1, true)...)
	g.makeConditional(body[len(body)-1])
	res := g.expr(TInt, 2)
	if shared != nil && g.chance(2, "capres") {
		// ... and returns its current value
		res = &N{K: "var", S: shared.name, T: TInt}
	}
	body = append(body, &N{K: "expr", C: []*N{res}})
	n.B = [][]*N{body}
	g.fns = g.fns[:len(g.fns)-1]
	g.pop()
	g.declare(vinfo{name, t, true})
	out := append(lead, n)
	if shared != nil && g.fn().noCalls == 0 {
		// the enclosing scope and the closure observe each other's updates
		call := &N{K: "call", S: name, T: TInt}
		if t == TFn1 {
			call.C = []*N{g.expr(TInt, 0)}
		}
		for i := 1 + g.draw(4, "nfollow"); i > 0; i-- {
			switch g.draw(4, "follow") {
			case 0:
				out = append(out, &N{K: "assign", S: shared.name, L: "+=", C: []*N{{K: "int", I: int64(1 + g.draw(4, "fw")), T: TInt}}})
			case 1, 2:
				out = append(out, &N{K: "print", C: []*N{call}})
			default:
				out = append(out, &N{K: "print", C: []*N{{K: "var", S: shared.name, T: TInt}}})
			}
		}
	}
	return out
}

// unwind: a closure over a variable of a frame (a closure call) or of a block (a do body) escapes through an
// outer closure variable, then that frame / block is left by a throw that is caught further out, other values
// are pushed where the frame was, and the escaped closure is used.
func (g *G) unwind() []*N {
	intLit := func(v int) *N { return &N{K: "int", I: int64(v), T: TInt} }
	c0, h := g.fresh("c"), g.fresh("h")
	out := []*N{
		{K: "closure", S: c0, T: TFn0, B: [][]*N{{{K: "expr", C: []*N{intLit(0)}}}}},
		{K: "decl", S: h, T: TFn0, C: []*N{{K: "var", S: c0, T: TFn0}}},
	}
	g.declare(vinfo{c0, TFn0, true})
	g.declare(vinfo{h, TFn0, false})
	w, g0 := g.fresh("v"), g.fresh("c")
	sym := []string{"a", "b", "c"}[g.draw(3, "usym")]
	// the part that runs inside the scope that will be unwound
	core := func(cond *N) []*N {
		return []*N{
			{K: "decl", S: w, T: TInt, C: []*N{intLit(g.draw(9, "uw"))}},
			{K: "closure", S: g0, T: TFn0, B: [][]*N{{
				{K: "assign", S: w, L: "+=", C: []*N{intLit(1 + g.draw(3, "uinc"))}},
				{K: "expr", C: []*N{{K: "var", S: w, T: TInt}}},
			}}},
			{K: "assign", S: h, L: "=", C: []*N{{K: "var", S: g0, T: TFn0}}},
			{K: "throw", S: ":" + sym, C: []*N{cond}},
		}
	}
	catch := &N{K: "csym", S: ":" + sym, C: []*N{{S: sym}}}
	do := &N{K: "do", X: []*N{catch}}
	if g.chance(2, "uframe") {
		// frame of a closure call
		k, p := g.fresh("c"), g.fresh("p")
		body := core(&N{K: "bin", S: ">", T: TBool, C: []*N{{K: "var", S: p, T: TInt}, intLit(0)}})
		body = append(body, &N{K: "expr", C: []*N{{K: "var", S: w, T: TInt}}})
		out = append(out, &N{K: "closure", S: k, T: TFn1, X: []*N{{K: "param", S: p, T: TInt}}, B: [][]*N{body}})
		g.declare(vinfo{k, TFn1, true})
		do.B = [][]*N{{{K: "print", C: []*N{{K: "call", S: k, T: TInt, C: []*N{intLit(g.draw(3, "uarg"))}}}}}}
	} else {
		// block of the do body itself
		vs := g.vars(TInt, false)
		cond := &N{K: "bin", S: ">=", T: TBool, C: []*N{{K: "var", S: w, T: TInt}, intLit(g.draw(9, "ucmp"))}}
		if len(vs) > 0 && g.chance(2, "uouter") {
			cond.C[0] = &N{K: "var", S: vs[g.draw(len(vs), "uv")].name, T: TInt}
		}
		body := core(cond)
		body = append(body, &N{K: "print", C: []*N{{K: "var", S: w, T: TInt}}})
		do.B = [][]*N{body}
	}
	do.B = append(do.B, []*N{g.trace()})
	out = append(out, do)
	call := func() *N { return &N{K: "print", C: []*N{{K: "call", S: h, T: TInt}}} }
	out = append(out, &N{K: "print", C: []*N{g.expr(TInt, 2)}}, call(), &N{K: "print", C: []*N{g.expr(TInt, 2)}}, call())
	return out
}

// callExpr: a call of a visible closure or method (nil if none).
func (g *G) callExpr(depth int) *N {
	if g.fn().noCalls > 0 {
		return nil
	}
	type cand struct {
		name string
		np   int
	}
	var cs []cand
	for _, v := range g.vars(TFn0, false) {
		cs = append(cs, cand{v.name, 0})
	}
	for _, v := range g.vars(TFn1, false) {
		cs = append(cs, cand{v.name, 1})
	}
	for _, m := range g.meths {
		cs = append(cs, cand{m.S, len(m.X)})
	}
	if len(cs) == 0 {
		return nil
	}
	c := cs[g.draw(len(cs), "callee")]
	if g.p.Deep && c.np == 0 && g.lookupType(c.name) == TFn0 && g.chance(3, "deep") {
		g.usesDeep = true
		return &N{K: "call", S: "deep", T: TInt, C: []*N{{K: "int", I: int64(rapid.IntRange(20, 140).Draw(g.t, "deepn")), T: TInt}, {K: "var", S: c.name, T: TFn0}}}
	}
	n := &N{K: "call", S: c.name, T: TInt}
	for i := 0; i < c.np; i++ {
		n.C = append(n.C, g.expr(TInt, depth-1))
	}
	return n
}

func (g *G) expr(t Type, depth int) *N {
	leaf := depth <= 0 || g.chance(3, "leaf")
	switch t {
	case TInt:
		if leaf {
			vs := g.vars(TInt, false)
			if len(vs) > 0 && !g.chance(3, "lit") {
				return &N{K: "var", S: vs[g.draw(len(vs), "iv")].name, T: TInt}
			}
			return &N{K: "int", I: int64(rapid.IntRange(-3, 12).Draw(g.t, "n")), T: TInt}
		}
		switch g.draw(8, "ik") {
		case 0, 1, 2:
			op := []string{"+", "-", "*", "+"}[g.draw(4, "iop")]
			r := g.expr(TInt, depth-1)
			if op == "*" {
				r = &N{K: "int", I: int64(rapid.IntRange(-2, 3).Draw(g.t, "m")), T: TInt}
			}
			return &N{K: "bin", S: op, T: TInt, C: []*N{g.expr(TInt, depth-1), r}}
		case 3:
			return &N{K: "bin", S: "%", T: TInt, C: []*N{g.expr(TInt, depth-1), {K: "int", I: int64(rapid.IntRange(2, 5).Draw(g.t, "mod")), T: TInt}}}
		case 4:
			if e := g.callExpr(depth); e != nil {
				return e
			}
			return g.expr(TInt, 0)
		case 5:
			vs := g.vars(TNInt, false)
			if len(vs) > 0 {
				r := g.expr(TInt, depth-1)
				if g.p.ShortCirc {
					r = g.traced(r)
				}
				return &N{K: "bin", S: "??", T: TInt, C: []*N{{K: "var", S: vs[g.draw(len(vs), "nv")].name, T: TNInt}, r}}
			}
			return g.expr(TInt, 0)
		case 6:
			vs := g.vars(TLInt, false)
			if len(vs) > 0 {
				return &N{K: "len", S: vs[g.draw(len(vs), "lv")].name, T: TInt}
			}
			return g.expr(TInt, 0)
		default:
			return g.expr(TInt, depth-1)
		}
	case TBool:
		if leaf {
			vs := g.vars(TBool, false)
			if len(vs) > 0 && !g.chance(3, "blit") {
				return &N{K: "var", S: vs[g.draw(len(vs), "bv")].name, T: TBool}
			}
			if g.chance(2, "cmpleaf") {
				return &N{K: "bin", S: []string{"<", "<=", ">", ">=", "==", "!="}[g.draw(6, "cmp")], T: TBool, C: []*N{g.expr(TInt, 0), g.expr(TInt, 0)}}
			}
			return &N{K: "bool", I: int64(g.draw(2, "b")), T: TBool}
		}
		switch g.draw(5, "bk") {
		case 0, 1:
			return &N{K: "bin", S: []string{"<", "<=", ">", ">=", "==", "!="}[g.draw(6, "cmp")], T: TBool, C: []*N{g.expr(TInt, depth-1), g.expr(TInt, depth-1)}}
		case 2, 3:
			r := g.expr(TBool, depth-1)
			if g.p.ShortCirc {
				r = g.traced(r)
			}
			return &N{K: "bin", S: []string{"&&", "||"}[g.draw(2, "lop")], T: TBool, C: []*N{g.expr(TBool, depth-1), r}}
		default:
			return &N{K: "not", T: TBool, C: []*N{g.expr(TBool, depth-1)}}
		}
	case TStr:
		if leaf {
			vs := g.vars(TStr, false)
			if len(vs) > 0 && !g.chance(3, "slit") {
				return &N{K: "var", S: vs[g.draw(len(vs), "sv")].name, T: TStr}
			}
			return &N{K: "str", S: []string{"", "a", "xy", "é", "q r"}[g.draw(5, "s")], T: TStr}
		}
		if g.chance(2, "interp") {
			return &N{K: "interp", S: []string{"", "n=", "é"}[g.draw(3, "pre")], T: TStr, C: []*N{g.expr(TInt, depth-1)}}
		}
		return &N{K: "bin", S: "+", T: TStr, C: []*N{g.expr(TStr, depth-1), g.expr(TStr, depth-1)}}
	case TNInt:
		if g.chance(3, "nil") {
			return &N{K: "nil", T: TNInt}
		}
		vs := g.vars(TNInt, false)
		if len(vs) > 0 && g.chance(2, "nvar") {
			return &N{K: "var", S: vs[g.draw(len(vs), "nv2")].name, T: TNInt}
		}
		return g.expr(TInt, depth-1)
	case TLInt:
		n := &N{K: "list", T: TLInt}
		for i := g.draw(4, "ll"); i > 0; i-- {
			n.C = append(n.C, g.expr(TInt, 0))
		}
		return n
	}
	panic("mini: cannot generate type")
}

// traced wraps the right operand of a short-circuit operator so that its
// evaluation is visible in the output.
func (g *G) traced(e *N) *N {
	g.usesTr = true
	g.id++
	f := "tr"
	if e.T == TBool {
		f = "tb"
	}
	return &N{K: "call", S: f, T: e.T, C: []*N{{K: "int", I: int64(g.id), T: TInt}, e}}
}
