package sandbox

import (
	"bufio"
	"encoding/json"
	"fmt"
	"io"
	"os"
	"os/exec"
	"path/filepath"
	"strings"
	"sync"
	"syscall"
	"time"
)

// Worker is a persistent child process.
type Worker struct {
	Bin   string
	Env   []string // extra environment (ELK_* sizing variables etc.)
	mu    sync.Mutex
	cmd   *exec.Cmd
	in    io.WriteCloser
	out   *bufio.Reader
	errf  *os.File
	nreq  int
	Spawn int // number of times the child was started
}

// BinPath returns the worker binary for a flavour: "" | "debug" | "race".
func BinPath(flavour string) string {
	dir := os.Getenv("VERIF_BUILD")
	if dir == "" {
		dir = "/verif/.build"
	}
	n := "elkworker"
	if flavour != "" {
		n += "." + flavour
	}
	return filepath.Join(dir, n)
}

func New(flavour string, env ...string) *Worker {
	return &Worker{Bin: BinPath(flavour), Env: env}
}

func (w *Worker) start() error {
	w.cmd = exec.Command(w.Bin)
	w.cmd.Env = append(os.Environ(), "ELKPATH="+repo(), "GOTRACEBACK=all", "NO_COLOR=1")
	w.cmd.Env = append(w.cmd.Env, w.Env...)
	w.cmd.SysProcAttr = &syscall.SysProcAttr{Setpgid: true, Pdeathsig: syscall.SIGKILL}
	in, err := w.cmd.StdinPipe()
	if err != nil {
		return err
	}
	out, err := w.cmd.StdoutPipe()
	if err != nil {
		return err
	}
	dir := os.Getenv("VERIF_TMP")
	if dir == "" {
		dir = os.TempDir()
	}
	_ = os.MkdirAll(dir, 0o755)
	ef, err := os.CreateTemp(dir, "worker-stderr-*")
	if err != nil {
		return err
	}
	_ = os.Remove(ef.Name()) // anonymous
	w.cmd.Stderr = ef
	w.cmd.Dir = dir
	if err := w.cmd.Start(); err != nil {
		return err
	}
	w.in, w.out, w.errf = in, bufio.NewReaderSize(out, 1<<20), ef
	w.Spawn++
	return nil
}

func repo() string {
	if r := os.Getenv("ELKPATH"); r != "" {
		return r
	}
	return "/repo"
}

// Close kills the child.
func (w *Worker) Close() {
	w.mu.Lock()
	defer w.mu.Unlock()
	w.kill()
}

func (w *Worker) kill() string {
	if w.cmd == nil {
		return ""
	}
	_ = w.in.Close()
	if w.cmd.Process != nil {
		_ = syscall.Kill(-w.cmd.Process.Pid, syscall.SIGKILL)
	}
	_ = w.cmd.Wait()
	tail := w.stderrTail()
	w.errf.Close()
	w.cmd = nil
	return tail
}

func (w *Worker) stderrTail() string {
	if w.errf == nil {
		return ""
	}
	st, err := w.errf.Stat()
	if err != nil {
		return ""
	}
	n := st.Size()
	const max = 24000
	off := int64(0)
	if n > max {
		off = n - max
	}
	b := make([]byte, n-off)
	_, _ = w.errf.ReadAt(b, off)
	return string(b)
}

// Result of one request.
type Result struct {
	Resp    Resp
	Died    bool   // the child died while serving this request
	TimedOut bool
	Stderr  string // tail of the child's stderr if it died / timed out
	ExitMsg string
}

// Do sends one request and waits for the answer (or death / deadline).
func (w *Worker) Do(req Req, timeout time.Duration) Result {
	w.mu.Lock()
	defer w.mu.Unlock()
	if w.cmd == nil {
		if err := w.start(); err != nil {
			return Result{Died: true, ExitMsg: "cannot start worker: " + err.Error()}
		}
	}
	w.nreq++
	req.ID = w.nreq
	b, _ := json.Marshal(&req)
	b = append(b, '\n')
	type rd struct {
		line []byte
		err  error
	}
	ch := make(chan rd, 1)
	out := w.out
	go func() {
		line, err := out.ReadBytes('\n')
		ch <- rd{line, err}
	}()
	if _, err := w.in.Write(b); err != nil {
		tail := w.kill()
		return Result{Died: true, Stderr: tail, ExitMsg: "write failed: " + err.Error()}
	}
	select {
	case r := <-ch:
		if r.err != nil || len(r.line) == 0 {
			// child died
			st := ""
			if w.cmd != nil {
				_ = w.in.Close()
				err := w.cmd.Wait()
				if err != nil {
					st = err.Error()
				}
				tail := w.stderrTail()
				w.errf.Close()
				w.cmd = nil
				return Result{Died: true, Stderr: tail, ExitMsg: st}
			}
			return Result{Died: true, ExitMsg: "eof"}
		}
		var resp Resp
		if err := json.Unmarshal(r.line, &resp); err != nil {
			tail := w.kill()
			return Result{Died: true, Stderr: tail, ExitMsg: "bad response: " + err.Error() + ": " + string(r.line[:min(len(r.line), 300)])}
		}
		// recycle the child now and then: goroutines of earlier programs may linger
		if w.nreq%200 == 0 {
			w.kill()
		}
		return Result{Resp: resp}
	case <-time.After(timeout):
		// ask for a goroutine dump before killing
		if w.cmd != nil && w.cmd.Process != nil {
			_ = w.cmd.Process.Signal(syscall.SIGQUIT)
			time.Sleep(300 * time.Millisecond)
		}
		tail := w.kill()
		return Result{TimedOut: true, Stderr: tail}
	}
}

// Classify maps a single-run result to an outcome class.
func Classify(res Result) (class string, detail string) {
	if res.TimedOut {
		return Timeout, clipTail(res.Stderr, 3000)
	}
	if res.Died {
		return Fatal, res.ExitMsg + "\n" + crashHead(res.Stderr)
	}
	if res.Resp.Err != "" {
		return Fatal, "worker error: " + res.Resp.Err
	}
	if len(res.Resp.Runs) == 0 {
		return Fatal, "no run in response"
	}
	return ClassifyRun(res.Resp.Runs[len(res.Resp.Runs)-1])
}

func ClassifyRun(r Run) (string, string) {
	if r.Panic != "" {
		if strings.HasPrefix(r.Panic, "call stack overflow") || strings.HasPrefix(r.Panic, "maximum value stack size exceeded") {
			return StackLimit, firstLine(r.Panic)
		}
		return GoPanic, r.Panic
	}
	if !r.Accepted {
		return Rejected, fmt.Sprint(len(r.Diags), " diagnostics")
	}
	if r.ErrClass != "" {
		return ElkError, r.ErrInspect
	}
	return OK, ""
}

func firstLine(s string) string {
	if i := strings.IndexByte(s, '\n'); i >= 0 {
		return s[:i]
	}
	return s
}

func clipTail(s string, n int) string {
	if len(s) > n {
		return s[len(s)-n:]
	}
	return s
}

// crashHead extracts the interesting part of a Go crash report.
func crashHead(s string) string {
	for _, k := range []string{"fatal error:", "panic:", "SIGSEGV", "unexpected signal"} {
		if i := strings.Index(s, k); i >= 0 {
			e := i + 2500
			if e > len(s) {
				e = len(s)
			}
			return s[i:e]
		}
	}
	return clipTail(s, 2500)
}
