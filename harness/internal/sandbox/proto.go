// Package sandbox runs generated Elk programs in disposable worker processes
// (cmd/elkworker).  A Go panic on a VM goroutine, a Go fatal error or memory
// corruption only kills the child; the client attributes the death to the
// request in flight and restarts the child.
package sandbox

// Req is one JSON line sent to the worker.
type Req struct {
	ID     int      `json:"id"`
	Mode   string   `json:"mode"` // check | run | repl | disasm | cancel | probe
	Name   string   `json:"name,omitempty"`
	Source string   `json:"source,omitempty"`
	Inputs []string `json:"inputs,omitempty"`
	Cfg    Cfg      `json:"cfg"`
}

type Cfg struct {
	Pool         int  `json:"pool,omitempty"`  // thread pool size (0 = default pool)
	Queue        int  `json:"queue,omitempty"` // task queue size
	ConcLimit    int  `json:"conc_limit,omitempty"`
	AbortChecks  bool `json:"abort_checks,omitempty"`
	CancelMs     int  `json:"cancel_ms,omitempty"`   // cancel mode: cancel the context after this many ms
	GraceMs      int  `json:"grace_ms,omitempty"`    // cancel mode: how long to wait for the VM to stop
	MaxOut       int  `json:"max_out,omitempty"`     // stdout cap in bytes
	Disasm       bool `json:"disasm,omitempty"`      // return the disassembly of the compiled program
	SchedSeed    int64 `json:"sched_seed,omitempty"` // verif hooks: schedule perturbation seed
	Incremental  bool `json:"incremental,omitempty"`
	StepTrace    bool `json:"step_trace,omitempty"`
}

type Diag struct {
	Severity string `json:"sev"`
	Msg      string `json:"msg"`
	File     string `json:"file,omitempty"`
	Line     int    `json:"line"`
	Col      int    `json:"col"`
}

// Run is the observable outcome of running one compiled program.
type Run struct {
	Accepted    bool   `json:"accepted"`
	Diags       []Diag `json:"diags,omitempty"`
	Ran         bool   `json:"ran"`
	Stdout      string `json:"stdout"`
	Stderr      string `json:"stderr,omitempty"` // what `elk run` would print for an uncaught error
	Result      string `json:"result,omitempty"` // inspect of the result value
	ResultClass string `json:"result_class,omitempty"`
	ErrInspect  string `json:"err,omitempty"`
	ErrClass    string `json:"err_class,omitempty"`
	Panic       string `json:"panic,omitempty"` // recovered Go panic on the main VM goroutine (+ Go stack)
	Disasm      string `json:"disasm,omitempty"`
	Aborted     bool   `json:"aborted,omitempty"`
	StopMs      int    `json:"stop_ms,omitempty"`
	Goroutines  string `json:"goroutines,omitempty"`
	Extra       map[string]any `json:"extra,omitempty"`
}

type Resp struct {
	ID   int   `json:"id"`
	Runs []Run `json:"runs"` // one per input (repl) or exactly one
	Err  string `json:"werr,omitempty"` // worker-level problem (bad request)
}

// Outcome classes shared by all program-level checks.
const (
	OK         = "ok"
	Rejected   = "rejected"
	ElkError   = "elk_error"
	StackLimit = "stack_limit"
	GoPanic    = "go_panic"
	Fatal      = "fatal"
	Timeout    = "timeout"
)
