// Package srcgen generates hostile Elk source text (not necessarily valid):
// fragments chosen to reach every lexer mode, mixed with arbitrary bytes.
package srcgen

import (
	"strings"

	"pgregory.net/rapid"
)

// Fragments that open / close / exercise lexer modes and parser corner cases.
var Fragments = []string{
	" ", "  ", "\n", "\r\n", "\r", "\t", ";", "\\\n",
	"\"", "\"foo\"", "\"a${", "}", "\"#{", "${", "#{", "$x", "$Foo", "#x", "#Foo", "\\n", "\\t", "\\x", "\\x4", "\\x41", "\\u", "\\u00e9", "\\u{1F600}", "\\U0001F600", "\\¦", "\\", "\\\"", "\\$", "\\#",
	"'", "'raw'", "'a\nb'", "`", "`a`", "`\\n`", "`\\x41`", "`é`", "r`a`", "r`", "``",
	"%/", "/", "/i", "/imsxUa", "%/a${", "%/a+/", "\\/",
	"\\w[", "%w[", "^s[", "\\s[", "\\x[", "%x[", "\\b[", "%b[", "\\o[", "%w(", "^w[", "^x[", "^b[", "foo bar", "1f 0b 7", "]", "[", "(", ")", "{", "%{", "^[", "%[", "^(", "%(",
	"#", "# comment", "#[", "]#", "##[", "]##", "/*", "*/", "/**", "**/", "//", "# a\n",
	"0", "1", "12_3", "0x1f", "0b101", "0o17", "0q", "0d12", "0X", "1.5", "1e10", "1.5e-3", "1.", ".5", "1i8", "2u64", "3u", "1.5f32", "10bf", "1f64", "0x", "0b2", "1__2", "9223372036854775808", "1i", "1e", "1e+",
	"foo", "Foo", "_foo", "_Foo", "@foo", "@@foo", "$foo", ":foo", ":\"foo bar\"", ":+", ":", "::", "Foo::Bar", "foo?", "foo!", "é", "日本", "á", "👨‍👩‍👧", "\u200d", "\ufeff", "\x00", "\x80", "\xff", "\xc3", "\xe2\x82",
	"+", "-", "*", "/", "**", "%", "<<", ">>", "<<<", ">>>", "&", "|", "^", "~", "&&", "||", "??", "!", "=", "==", "!=", "===", "!==", "=~", "!~", "<", "<=", ">", ">=", "<=>", "<:", "<<:", ":>", ":>>", "->", "~>", "|>", "=>", "...", "<.<", "..<", "<..", ".", "?.", "..", "&.", "+=", "-=", "*=", "/=", "**=", "%=", "<<=", ">>=", "&=", "|=", "^=", "&&=", "||=", "??=", ":=", "++", "--", "+@", "-@", ",", "?", "@", "$", "&~", "&!", "|!", "!{", "!foo", "|a|", "|a| a", "|| 1", "|a", "||",
	"if", "else", "elsif", "then", "end", "unless", "while", "until", "loop", "for", "fornum", "in", "of", "do", "catch", "finally", "defer", "break", "continue", "return", "yield", "throw", "unchecked", "await", "go", "async", "sync", "def", "init", "sig", "class", "module", "mixin", "interface", "struct", "enum", "extend", "include", "implement", "where", "using", "as", "alias", "typedef", "const", "val", "var", "let", "switch", "match", "case", "with", "macro", "quote", "unquote", "unquote_expr", "unquote_type", "unquote_pattern", "unquote_ident", "unquote_const", "unquote_ivar", "undefined", "nil", "true", "false", "self", "super", "new", "singleton", "abstract", "sealed", "noinit", "primitive", "native", "default", "pure", "overload", "public", "private", "protected", "typeof", "instanceof", "must", "try", "type", "bool", "void", "never", "any", "nothing", "import", "export", "getter", "setter", "attr", "func", "goto", "extern", "singleton",
	"def foo(a: Int): Int then a", "x := 1", "class Foo; end", "a.b(1, 2)", "a |> b", "1...5", "[1, 2]", "{a: 1}", "^[1]", "%[1]", "println \"x\"", "%/a(?i:b)/x", "macro m(a: ExpressionNode); quote; !{a}; end; end", "m!(1)", "m! 1", "switch x case 1 then 2 end", "do 1 catch String() as s then 2 finally 3 end", "-> 1", "|a: Int| -> a", "Foo::[Int]", "a as Int", "a?", "a!", "a.?b", "a&.b",
}

// Source draws a hostile source text.
func Source(t *rapid.T) string {
	n := rapid.IntRange(0, 24).Draw(t, "nfrag")
	var b strings.Builder
	for i := 0; i < n; i++ {
		switch rapid.IntRange(0, 9).Draw(t, "kind") {
		case 0:
			b.Write(rapid.SliceOfN(rapid.Byte(), 0, 6).Draw(t, "bytes"))
		case 1:
			b.WriteString(rapid.StringN(0, 5, -1).Draw(t, "str"))
		default:
			b.WriteString(rapid.SampledFrom(Fragments).Draw(t, "frag"))
			if rapid.IntRange(0, 2).Draw(t, "sp") == 0 {
				b.WriteByte(' ')
			}
		}
	}
	return b.String()
}

// Mutate applies small byte/fragment-level edits to a seed text.
func Mutate(t *rapid.T, s string) string {
	k := rapid.IntRange(1, 4).Draw(t, "nmut")
	for i := 0; i < k; i++ {
		pos := 0
		if len(s) > 0 {
			pos = rapid.IntRange(0, len(s)).Draw(t, "pos")
		}
		switch rapid.IntRange(0, 5).Draw(t, "mut") {
		case 0: // insert fragment
			s = s[:pos] + rapid.SampledFrom(Fragments).Draw(t, "frag") + s[pos:]
		case 1: // delete span
			e := pos + rapid.IntRange(0, 6).Draw(t, "dl")
			if e > len(s) {
				e = len(s)
			}
			s = s[:pos] + s[e:]
		case 2: // truncate (REPL-style incomplete input)
			s = s[:pos]
		case 3: // duplicate span
			e := pos + rapid.IntRange(0, 10).Draw(t, "dup")
			if e > len(s) {
				e = len(s)
			}
			s = s[:e] + s[pos:e] + s[e:]
		case 4: // flip a byte
			if pos < len(s) {
				bs := []byte(s)
				bs[pos] ^= byte(1 << rapid.IntRange(0, 7).Draw(t, "bit"))
				s = string(bs)
			}
		case 5: // insert random bytes
			s = s[:pos] + string(rapid.SliceOfN(rapid.Byte(), 1, 3).Draw(t, "b")) + s[pos:]
		}
	}
	return s
}
