package mini15

// Reduce deletes statements (and unwraps compound statements) while the
// predicate keeps holding.  The predicate sees a complete program; programs
// that no longer type-check simply make it return false.
func Reduce(p *Program, fails func(*Program) bool, budget int) *Program {
	cur := p
	for changed := true; changed && budget > 0; {
		changed = false
		// drop whole methods first
		for i := 0; i < len(cur.Methods) && budget > 0; i++ {
			cand := *cur
			cand.Methods = append(append([]*N{}, cur.Methods[:i]...), cur.Methods[i+1:]...)
			budget--
			if fails(&cand) {
				cur = &cand
				changed = true
				i--
			}
		}
		// then single statements anywhere
		n := countStmts(cur)
		for idx := 0; idx < n && budget > 0; idx++ {
			for _, mode := range []int{0, 1} { // 0 = delete, 1 = replace by its first inner block
				cand, ok := editStmt(cur, idx, mode)
				if !ok {
					continue
				}
				budget--
				if fails(cand) {
					cur = cand
					changed = true
					n = countStmts(cur)
					idx--
					break
				}
			}
		}
	}
	return cur
}

func countStmts(p *Program) int {
	c := 0
	var walk func(b []*N)
	walk = func(b []*N) {
		for _, s := range b {
			c++
			for _, bb := range s.B {
				walk(bb)
			}
		}
	}
	for _, m := range p.Methods {
		walk(m.B[0])
	}
	walk(p.Main)
	return c
}

// editStmt returns a deep-enough copy of p with statement number idx (preorder)
// deleted (mode 0) or replaced by the statements of its first block (mode 1).
func editStmt(p *Program, idx, mode int) (*Program, bool) {
	c := 0
	done := false
	var walk func(b []*N) []*N
	walk = func(b []*N) []*N {
		out := make([]*N, 0, len(b))
		for _, s := range b {
			if done {
				out = append(out, s)
				continue
			}
			if c == idx {
				c++
				done = true
				if mode == 0 {
					continue
				}
				if len(s.B) == 0 || s.K == "closure" || s.K == "defer" {
					return nil
				}
				out = append(out, s.B[0]...)
				continue
			}
			c++
			if len(s.B) > 0 {
				cp := *s
				cp.B = make([][]*N, len(s.B))
				for i, bb := range s.B {
					nb := walk(bb)
					if nb == nil && done {
						return nil
					}
					cp.B[i] = nb
				}
				s = &cp
			}
			out = append(out, s)
		}
		return out
	}
	np := *p
	np.Methods = make([]*N, len(p.Methods))
	for i, m := range p.Methods {
		cm := *m
		body := walk(m.B[0])
		if body == nil {
			return nil, false
		}
		cm.B = [][]*N{body}
		np.Methods[i] = &cm
	}
	np.Main = walk(p.Main)
	if np.Main == nil || !done {
		return nil, false
	}
	// bodies must not become empty where Elk requires a value (function bodies keep their tail)
	return &np, true
}

// InDomain reports whether the program could have been generated as far as unreachable code is
// concerned: a statement all of whose paths jump is only allowed as the last statement of a block
// (the reducer must not walk into the checker's `unreachable code` territory).
func InDomain(p *Program) bool {
	ok := true
	var walk func(b []*N)
	walk = func(b []*N) {
		for i, s := range b {
			if i < len(b)-1 && diverges(s) {
				ok = false
			}
			for _, bb := range s.B {
				walk(bb)
			}
		}
	}
	for _, m := range p.Methods {
		walk(m.B[0])
	}
	return ok
}
