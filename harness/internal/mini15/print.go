package mini15

import (
	"fmt"
	"strings"
)

// Printing modes of a method.
const (
	ModePlain      = iota // yield e  ->  println("y=${e}")
	ModeGen               // def *NAME, yield e stays a yield
	ModeAsync             // async def NAME, yield e -> println("y=${e}")
	ModeQuiet             // nothing is printed: print/trace/yield only evaluate their operand; calls go to the quiet copies
	ModeQuietAsync        // ModeQuiet + async def
)

// QuietSuffix is appended to the names of the quiet copies of all methods.
const QuietSuffix = "q"

type printer struct {
	mode    int
	name    string          // printed name of the method ("" = its own)
	methods map[string]bool // method names of the program (renamed in quiet mode)
	nsink   int
}

// sink evaluates e without printing it: an initialiser of a throw-away local (a shape the loud
// programs contain as well; a bare `a && b` expression statement is not one of them)
func (pp *printer) sink(b *strings.Builder, e string) {
	pp.nsink++
	fmt.Fprintf(b, "z%d := %s\n", pp.nsink, e)
}

func (pp *printer) quiet() bool { return pp.mode == ModeQuiet || pp.mode == ModeQuietAsync }

// Helpers returns the definitions of the trace helpers (loud and quiet).
func Helpers() string {
	var b strings.Builder
	b.WriteString("def tr(id: Int, v: Int): Int\n  println(\"e${id}\")\n  v\nend\n")
	b.WriteString("def tb(id: Int, v: Bool): Bool\n  println(\"e${id}\")\n  v\nend\n")
	b.WriteString("def trq(id: Int, v: Int): Int\n  v\nend\n")
	b.WriteString("def tbq(id: Int, v: Bool): Bool\n  v\nend\n")
	return b.String()
}

// Method prints method m of the program in the given mode under the given name ("" = own name,
// with QuietSuffix in the quiet modes).
func (p *Program) Method(m *N, mode int, name string) string {
	pp := &printer{mode: mode, name: name, methods: map[string]bool{}}
	for _, x := range p.Methods {
		pp.methods[x.S] = true
	}
	var b strings.Builder
	pp.stmt(&b, m, 0)
	return b.String()
}

// Source prints all methods in plain mode (reference reading aid).
func (p *Program) Source() string {
	var b strings.Builder
	for _, m := range p.Methods {
		b.WriteString(p.Method(m, ModePlain, ""))
	}
	return b.String()
}

func ind(b *strings.Builder, n int) { b.WriteString(strings.Repeat("  ", n)) }

func (pp *printer) block(b *strings.Builder, blk []*N, d int) {
	for _, s := range blk {
		pp.stmt(b, s, d)
	}
}

func (pp *printer) stmt(b *strings.Builder, n *N, d int) {
	ind(b, d)
	lab := ""
	if n.L != "" {
		lab = "$" + n.L + ": "
	}
	switch n.K {
	case "def":
		var ps []string
		for _, p := range n.X {
			ps = append(ps, p.S+": "+p.T.Elk())
		}
		rt := "Int"
		if n.T == TFn0 || n.T == TFn1 {
			rt = "(" + n.T.Elk() + ")"
		}
		name := n.S
		if pp.quiet() {
			name += QuietSuffix
		}
		if pp.name != "" {
			name = pp.name
		}
		kw := "def "
		switch pp.mode {
		case ModeGen:
			kw = "def *"
		case ModeAsync, ModeQuietAsync:
			kw = "async def "
		}
		fmt.Fprintf(b, "%s%s(%s): %s\n", kw, name, strings.Join(ps, ", "), rt)
		pp.block(b, n.B[0], d+1)
		ind(b, d)
		b.WriteString("end\n")
	case "yield":
		e := pp.expr(n.C[0])
		switch {
		case pp.mode == ModeGen:
			fmt.Fprintf(b, "yield %s\n", e)
		case pp.quiet():
			pp.sink(b, e)
		default:
			fmt.Fprintf(b, "println(\"y=${%s}\")\n", e)
		}
	case "print":
		e := pp.expr(n.C[0])
		if pp.quiet() {
			pp.sink(b, e)
			break
		}
		if n.C[0].T == TBool {
			e = "(" + e + ").inspect"
		} else if n.C[0].T == TNInt {
			e = "(" + e + " ?? (-99))" // Nil declares no inspect/to_string in the headers
		}
		fmt.Fprintf(b, "println(%s)\n", e)
	case "trace":
		if pp.quiet() {
			b.WriteString("nil\n")
			break
		}
		fmt.Fprintf(b, "println(\"t%d\")\n", n.I)
	case "decl":
		if n.T == TNInt || n.T == TLInt || n.T == TFn0 || n.T == TFn1 || n.C[0].K == "ifx" {
			fmt.Fprintf(b, "var %s: %s = %s\n", n.S, n.T.Elk(), pp.expr(n.C[0]))
		} else {
			fmt.Fprintf(b, "%s := %s\n", n.S, pp.expr(n.C[0]))
		}
	case "closure":
		// c := |p: Int|: Int -> body end
		hdr := "||: Int"
		if n.T == TFn1 {
			hdr = "|" + n.X[0].S + ": Int|: Int"
		}
		arrow := "->"
		if n.I == 1 {
			arrow = "~>"
		}
		fmt.Fprintf(b, "%s := %s %s\n", n.S, hdr, arrow)
		pp.block(b, n.B[0], d+1)
		ind(b, d)
		b.WriteString("end\n")
	case "assign":
		fmt.Fprintf(b, "%s %s %s\n", n.S, n.L2(), pp.expr(n.C[0]))
	case "push":
		fmt.Fprintf(b, "%s << %s\n", n.S, pp.expr(n.C[0]))
	case "expr":
		fmt.Fprintf(b, "%s\n", pp.expr(n.C[0]))
	case "if", "unless":
		fmt.Fprintf(b, "%s %s\n", n.K, pp.expr(n.C[0]))
		pp.block(b, n.B[0], d+1)
		if len(n.B) > 1 && len(n.B[1]) > 0 {
			ind(b, d)
			b.WriteString("else\n")
			pp.block(b, n.B[1], d+1)
		}
		ind(b, d)
		b.WriteString("end\n")
	case "while", "until":
		fmt.Fprintf(b, "%s%s %s\n", lab, n.K, pp.expr(n.C[0]))
		pp.block(b, n.B[0], d+1)
		ind(b, d)
		b.WriteString("end\n")
	case "loop":
		fmt.Fprintf(b, "%sloop\n", lab)
		pp.block(b, n.B[0], d+1)
		ind(b, d)
		b.WriteString("end\n")
	case "dowhile":
		fmt.Fprintf(b, "%sdo\n", lab)
		pp.block(b, n.B[0], d+1)
		ind(b, d)
		fmt.Fprintf(b, "end while %s\n", pp.expr(n.C[0]))
	case "forin":
		fmt.Fprintf(b, "%sfor %s in %s\n", lab, n.S, pp.expr(n.C[0]))
		pp.block(b, n.B[0], d+1)
		ind(b, d)
		b.WriteString("end\n")
	case "fornum":
		fmt.Fprintf(b, "%sfornum %s := %d; %s < %d; %s += 1\n", lab, n.S, n.C[0].I, n.S, n.I, n.S)
		pp.block(b, n.B[0], d+1)
		ind(b, d)
		b.WriteString("end\n")
	case "break", "continue":
		b.WriteString(n.K)
		if n.S != "" {
			b.WriteString("[" + n.S + "]")
		}
		if len(n.C) > 0 {
			b.WriteString(" if " + pp.expr(n.C[0]))
		}
		b.WriteString("\n")
	case "return":
		b.WriteString("return " + pp.expr(n.C[0]))
		if len(n.C) > 1 {
			b.WriteString(" if " + pp.expr(n.C[1]))
		}
		b.WriteString("\n")
	case "throw":
		b.WriteString("throw unchecked " + n.S)
		if len(n.C) > 0 {
			b.WriteString(" if " + pp.expr(n.C[0]))
		}
		b.WriteString("\n")
	case "defer":
		b.WriteString("defer ")
		var sb strings.Builder
		pp.stmt(&sb, n.B[0][0], 0)
		b.WriteString(sb.String())
	case "do":
		if n.S != "" { // value-producing: v := do ... end
			fmt.Fprintf(b, "%s := do\n", n.S)
		} else {
			b.WriteString("do\n")
		}
		pp.block(b, n.B[0], d+1)
		for i, c := range n.X {
			ind(b, d)
			fmt.Fprintf(b, "catch %s\n", c.S)
			pp.block(b, n.B[1+i], d+1)
		}
		if n.I == 1 {
			ind(b, d)
			b.WriteString("finally\n")
			pp.block(b, n.B[len(n.B)-1], d+1)
		}
		ind(b, d)
		b.WriteString("end\n")
	default:
		fmt.Fprintf(b, "# unknown stmt %s\n", n.K)
	}
}

// L2 returns the assignment operator stored in L for "assign" nodes.
func (n *N) L2() string {
	if n.L == "" {
		return "="
	}
	return n.L
}

func strLit(s string) string {
	r := strings.NewReplacer("\\", "\\\\", "\"", "\\\"", "\n", "\\n", "$", "\\$", "#", "\\#")
	return "\"" + r.Replace(s) + "\""
}

// expr prints an expression (fully parenthesised where nesting occurs).
func (pp *printer) expr(n *N) string {
	switch n.K {
	case "int":
		if n.I < 0 {
			return fmt.Sprintf("(%d)", n.I)
		}
		return fmt.Sprintf("%d", n.I)
	case "bool":
		if n.I != 0 {
			return "true"
		}
		return "false"
	case "str":
		return strLit(n.S)
	case "nil":
		return "nil"
	case "var":
		return n.S
	case "bin":
		return "(" + pp.expr(n.C[0]) + " " + n.S + " " + pp.expr(n.C[1]) + ")"
	case "not":
		return "(!" + pp.expr(n.C[0]) + ")"
	case "call":
		var as []string
		for _, a := range n.C {
			as = append(as, pp.expr(a))
		}
		name := n.S
		if pp.quiet() && (pp.methods[name] || name == "tr" || name == "tb") {
			name += QuietSuffix
		}
		return name + "(" + strings.Join(as, ", ") + ")"
	case "interp":
		return "\"" + n.S + "${" + pp.expr(n.C[0]) + "}\""
	case "len":
		return n.S + ".length"
	case "list":
		var as []string
		for _, a := range n.C {
			as = append(as, pp.expr(a))
		}
		return "[" + strings.Join(as, ", ") + "]"
	case "range":
		return pp.expr(n.C[0]) + "..." + pp.expr(n.C[1])
	case "ifx":
		return "(if " + pp.expr(n.C[0]) + " then " + pp.expr(n.C[1]) + " else " + pp.expr(n.C[2]) + ")"
	}
	return "/*?" + n.K + "*/"
}
