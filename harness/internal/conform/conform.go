// Package conform decides conservatively whether a runtime value is an instance
// of a static type of the checker (independent of the checker's isSubtype).
// Unsure => conforms.  Copied from props/c28/types_test.go (property C28) and
// exported so that several checks and the worker can share it.
package conform

import (
	"fmt"
	"math/big"
	"strconv"
	"strings"

	"github.com/elk-language/elk/types"
	"github.com/elk-language/elk/value"
	"github.com/elk-language/elk/vm"
)

// Env binds type parameters (by "<namespace>::<name>") to a type that is to
// be read in another environment (the includer's), plus `self`.
type Env struct {
	m       map[string]bound
	Self    types.Type // type of the receiver (nil = unknown)
	SelfEnv *Env
}

type bound struct {
	t types.Type
	e *Env
}

func NewEnv() *Env { return &Env{m: map[string]bound{}} }

func tpKey(tp *types.TypeParameter) string {
	if tp.Namespace != nil {
		if _, ok := tp.Namespace.(*types.TypeParamNamespace); ok {
			return "@" + tp.Name.String() // method-level type parameter
		}
		return tp.Namespace.Name() + "::" + tp.Name.String()
	}
	return "@" + tp.Name.String()
}

func (e *Env) lookup(tp *types.TypeParameter) (bound, bool) {
	if e == nil {
		return bound{}, false
	}
	b, ok := e.m[tpKey(tp)]
	return b, ok
}

// BindArgs: environment for the members of generic namespace ns instantiated with args (read in outer).
func BindArgs(ns types.Namespace, args *types.TypeArguments, outer *Env) *Env {
	e := NewEnv()
	if outer != nil {
		e.Self, e.SelfEnv = outer.Self, outer.SelfEnv
	}
	if args == nil {
		return e
	}
	for _, tp := range ns.TypeParameters() {
		if a, ok := args.ArgumentMap[tp.Name]; ok && a != nil {
			e.m[tpKey(tp)] = bound{a.Type, outer}
		}
	}
	return e
}

// Ancestors calls out for every namespace whose own methods an instance of ns
// inherits (ns itself first), with the environment its signatures are read in.
// Conditional includes (`extend where`) are not followed.
func Ancestors(ns types.Namespace, e *Env, out func(decl types.Namespace, e *Env)) {
	for cur := ns; cur != nil; cur = cur.Parent() {
		switch c := cur.(type) {
		case *types.Class:
			out(c, e)
		case *types.SingletonClass:
			out(c, e)
		case *types.Mixin:
			out(c, e)
		case *types.Module:
			out(c, e)
		case *types.MixinWithWhere:
			// conditional: skipped
		case *types.MixinProxy:
			ne := NewEnv()
			ne.Self, ne.SelfEnv = e.Self, e.SelfEnv
			Ancestors(c.Mixin, ne, out)
		case *types.Generic:
			switch g := c.Namespace.(type) {
			case *types.MixinProxy:
				Ancestors(g.Mixin, BindArgs(g.Mixin, c.TypeArguments, e), out)
			case *types.Class:
				// generic superclass: its chain continues through g.Parent()
				Ancestors(g, BindArgs(g, c.TypeArguments, e), out)
				return
			}
		case *types.InterfaceProxy:
			// abstract signatures only
		}
	}
}

func fullName(t types.Type) string {
	switch n := t.(type) {
	case *types.Class:
		return n.Name()
	case *types.Mixin:
		return n.Name()
	case *types.Interface:
		return n.Name()
	case *types.Module:
		return n.Name()
	}
	return ""
}

func RuntimeClass(name string) *value.Class {
	rv := value.RootModule.Constants.Get(value.ToSymbol(name))
	if rv.IsUndefined() {
		return nil
	}
	c, _ := rv.SafeAsReference().(*value.Class)
	return c
}

// typeArgsOf returns the positional type arguments of a Generic.
func typeArgsOf(g *types.Generic) []types.Type {
	var out []types.Type
	if g.TypeArguments == nil {
		return nil
	}
	for _, name := range g.ArgumentOrder {
		if a := g.ArgumentMap[name]; a != nil {
			out = append(out, a.Type)
		} else {
			out = append(out, types.Any{})
		}
	}
	return out
}

type Ctx struct {
	Th    *vm.Thread
	depth int
	Why   string // first reason of non-conformance (innermost)
	// optional: lets literal types without a dedicated case fall back to their class
	GlobalEnv *types.GlobalEnvironment
}

func (c *Ctx) fail(format string, a ...any) bool {
	if c.Why == "" {
		c.Why = fmt.Sprintf(format, a...)
	}
	return false
}

const maxElems = 64 // element-wise checks look at the first maxElems elements

// conforms decides conservatively whether the runtime value is an instance of
// the static type read in environment e.  Unsure => true.
func Conforms(c *Ctx, v value.Value, t types.Type, e *Env) bool {
	if c.depth > 12 {
		return true
	}
	c.depth++
	defer func() { c.depth-- }()
	if v.IsUndefined() {
		return c.fail("value is undefined (no Elk value)")
	}
	switch tt := t.(type) {
	case nil:
		return true
	case types.Any, types.Void, types.Untyped, types.NoValue:
		return true
	case types.Never:
		return c.fail("a value %s was produced where the declared type is never", Insp(v))
	case types.Nil:
		if v.IsNil() {
			return true
		}
		return c.fail("%s is not nil", Insp(v))
	case types.Bool:
		if v.IsTrue() || v.IsFalse() {
			return true
		}
		return c.fail("%s is not a bool", Insp(v))
	case types.True:
		if v.IsTrue() {
			return true
		}
		return c.fail("%s is not true", Insp(v))
	case types.False:
		if v.IsFalse() {
			return true
		}
		return c.fail("%s is not false", Insp(v))
	case types.Self:
		if e != nil && e.Self != nil {
			return Conforms(c, v, e.Self, e.SelfEnv)
		}
		return true
	case *types.NamedType:
		return Conforms(c, v, tt.Type, e)
	case *types.GenericNamedType:
		return true
	case *types.Nilable:
		if v.IsNil() {
			return true
		}
		return Conforms(c, v, tt.Type, e)
	case *types.Union:
		for _, el := range tt.Elements {
			sub := &Ctx{Th: c.Th, depth: c.depth, GlobalEnv: c.GlobalEnv}
			if Conforms(sub, v, el, e) {
				return true
			}
		}
		return c.fail("%s (%s) is in no member of the union %s", Insp(v), v.Class().Name, types.Inspect(t))
	case *types.Intersection:
		for _, el := range tt.Elements {
			if !Conforms(c, v, el, e) {
				return false
			}
		}
		return true
	case *types.Not:
		if hasFreeOrLoose(tt.Type, e) {
			return true
		}
		sub := &Ctx{Th: c.Th, depth: c.depth, GlobalEnv: c.GlobalEnv}
		if Conforms(sub, v, tt.Type, e) {
			return c.fail("%s conforms to %s, excluded by %s", Insp(v), types.Inspect(tt.Type), types.Inspect(t))
		}
		return true
	case *types.TypeParameter:
		if b, ok := e.lookup(tt); ok {
			return Conforms(c, v, b.t, b.e)
		}
		return true
	case *types.Class:
		return conformsClass(c, v, tt.Name())
	case *types.Mixin:
		return conformsClass(c, v, tt.Name())
	case *types.Module:
		return true
	case *types.Interface:
		return conformsInterface(c, v, tt)
	case *types.InterfaceProxy:
		return conformsInterface(c, v, tt.Interface)
	case *types.Generic:
		return conformsGeneric(c, v, tt, e)
	case *types.SingletonClass:
		// the class object itself (or a subclass object)
		name := tt.AttachedObject.Name()
		rc := RuntimeClass(name)
		if rc == nil {
			return true
		}
		got, ok := v.SafeAsReference().(*value.Class)
		if !ok {
			if _, isMod := v.SafeAsReference().(*value.Module); isMod {
				return true
			}
			return c.fail("%s is not the class object %s", Insp(v), name)
		}
		for p := range got.Parents() {
			if p == rc {
				return true
			}
		}
		return c.fail("class object %s is not %s or a subclass", got.Name, name)
	case *types.InstanceOf, *types.SingletonOf:
		return true
	case *types.Exact:
		// `exact C` (narrowing by `<<:`): the class of the value is C itself
		var name string
		switch n := tt.Type.(type) {
		case *types.Class:
			name = n.Name()
		default:
			return Conforms(c, v, tt.Type, e)
		}
		if name == "Std::Bool" || name == "Std::Value" || name == "Std::Object" {
			return conformsClass(c, v, name)
		}
		rc := RuntimeClass(name)
		if rc == nil {
			return true
		}
		if v.Class() == rc {
			return true
		}
		return c.fail("%s (class %s) is not a direct instance of %s", Insp(v), v.Class().Name, name)
	case *types.Callable:
		return true
	case *types.IntLiteral:
		b, ok := new(big.Int).SetString(strings.ReplaceAll(tt.Value, "_", ""), 0)
		if !ok {
			return true
		}
		if tt.IsNegative() {
			b.Neg(b)
		}
		if v.IsSmallInt() {
			if b.IsInt64() && int64(v.AsSmallInt()) == b.Int64() {
				return true
			}
			return c.fail("%s is not the literal %s", Insp(v), tt.Value)
		}
		if bi, ok := v.SafeAsReference().(*value.BigInt); ok {
			if bi.ToGoBigInt().Cmp(b) == 0 {
				return true
			}
		}
		return c.fail("%s is not the literal %s", Insp(v), types.Inspect(tt))
	case *types.StringLiteral:
		if s, ok := v.SafeAsReference().(value.String); ok && string(s) == tt.Value {
			return true
		}
		return c.fail("%s is not the literal %q", Insp(v), tt.Value)
	case *types.SymbolLiteral:
		if v.IsInlineSymbol() && v.AsInlineSymbol().String() == tt.Value {
			return true
		}
		return c.fail("%s is not the literal :%s", Insp(v), tt.Value)
	case *types.CharLiteral:
		if v.IsChar() && rune(v.AsChar()) == tt.Value {
			return true
		}
		return c.fail("%s is not the literal char %q", Insp(v), tt.Value)
	case *types.FloatLiteral:
		f, err := strconv.ParseFloat(strings.ReplaceAll(tt.Value, "_", ""), 64)
		if err != nil || !v.IsFloat() {
			return conformsClass(c, v, "Std::Float")
		}
		if tt.IsNegative() {
			f = -f
		}
		if float64(v.AsFloat()) == f || (f != f && float64(v.AsFloat()) != float64(v.AsFloat())) {
			return true
		}
		return c.fail("%s is not the literal %s", Insp(v), tt.Value)
	}
	// other literal types (fixed-width integers and floats): at least the class must match
	if c.GlobalEnv != nil && t.IsLiteral() {
		if cl, ok := t.ToNonLiteral(c.GlobalEnv).(*types.Class); ok {
			return conformsClass(c, v, cl.Name())
		}
	}
	return true // unknown type node: unsure => conforms
}

// hasFreeOrLoose: the type contains something Conforms() accepts unconditionally,
// so a negative result under `not` would be unsound.
func hasFreeOrLoose(t types.Type, e *Env) bool {
	switch tt := t.(type) {
	case *types.Class, *types.Mixin, types.Nil, types.Bool, types.True, types.False:
		return false
	case *types.Nilable:
		return hasFreeOrLoose(tt.Type, e)
	case *types.Union:
		for _, el := range tt.Elements {
			if hasFreeOrLoose(el, e) {
				return true
			}
		}
		return false
	case *types.NamedType:
		return hasFreeOrLoose(tt.Type, e)
	}
	return true
}

func Insp(v value.Value) (s string) {
	defer func() {
		if r := recover(); r != nil {
			s = fmt.Sprintf("<Inspect panicked: %v>", r)
		}
	}()
	s = v.Inspect()
	if len(s) > 160 {
		s = s[:160] + "…"
	}
	return s
}

func conformsClass(c *Ctx, v value.Value, name string) bool {
	switch name {
	case "Std::Value", "Std::Object":
		return true
	case "Std::Bool":
		if v.IsTrue() || v.IsFalse() {
			return true
		}
		return c.fail("%s is not a Bool", Insp(v))
	}
	rc := RuntimeClass(name)
	if rc == nil {
		return true // no runtime counterpart: cannot decide here (reported by the enumeration)
	}
	if value.IsA(v, rc) {
		return true
	}
	return c.fail("%s (class %s) is not an instance of %s", Insp(v), v.Class().Name, name)
}

// interfaces are structural: accepted (conservative)
func conformsInterface(c *Ctx, v value.Value, i *types.Interface) bool { return true }

func conformsGeneric(c *Ctx, v value.Value, g *types.Generic, e *Env) bool {
	var base string
	switch n := g.Namespace.(type) {
	case *types.Class:
		base = n.Name()
		if !conformsClass(c, v, base) {
			return false
		}
	case *types.Mixin:
		base = n.Name()
		if !conformsClass(c, v, base) {
			return false
		}
	case *types.Interface:
		base = n.Name()
		if !conformsInterface(c, v, n) {
			return false
		}
	case *types.MixinProxy:
		base = n.Mixin.Name()
	default:
		return true
	}
	args := typeArgsOf(g)
	ref := v.SafeAsReference()
	switch base {
	case "Std::ArrayList", "Std::ArrayTuple", "Std::List", "Std::Tuple", "Std::HashSet", "Std::Set", "Std::ImmutableSet",
		"Std::Collection", "Std::ImmutableCollection":
		if len(args) < 1 {
			return true
		}
		switch ref.(type) {
		case *value.ArrayListOfValue, *value.ArrayTupleOfValue, *vm.HashSetOfValue:
		default:
			return true // other implementations (ranges, lazy iterables…): not walked
		}
		n := 0
		for el, err := range vm.Iterate(c.Th, v) {
			if !err.IsUndefined() {
				return true
			}
			if !Conforms(c, el, args[0], e) {
				return c.fail("element %d of %s: %s", n, types.Inspect(g), c.Why)
			}
			if n++; n >= maxElems {
				break
			}
		}
	case "Std::HashMap", "Std::HashRecord", "Std::Map", "Std::Record":
		if len(args) < 2 {
			return true
		}
		switch ref.(type) {
		case *vm.HashMapOfValue, *vm.HashRecordOfValue:
		default:
			return true
		}
		n := 0
		for el, err := range vm.Iterate(c.Th, v) {
			if !err.IsUndefined() {
				return true
			}
			p, ok := el.SafeAsReference().(value.Pair)
			if !ok {
				return true
			}
			if !Conforms(c, p.Key(), args[0], e) {
				return c.fail("key %d of %s: %s", n, types.Inspect(g), c.Why)
			}
			if !Conforms(c, p.Value(), args[1], e) {
				return c.fail("value %d of %s: %s", n, types.Inspect(g), c.Why)
			}
			if n++; n >= maxElems {
				break
			}
		}
	case "Std::Pair":
		if len(args) < 2 {
			return true
		}
		if p, ok := ref.(value.Pair); ok {
			if !Conforms(c, p.Key(), args[0], e) {
				return c.fail("key of %s: %s", types.Inspect(g), c.Why)
			}
			if !Conforms(c, p.Value(), args[1], e) {
				return c.fail("value of %s: %s", types.Inspect(g), c.Why)
			}
		}
	case "Std::ClosedRange", "Std::OpenRange", "Std::LeftOpenRange", "Std::RightOpenRange":
		if len(args) < 1 {
			return true
		}
		var s, en value.Value
		switch r := ref.(type) {
		case *value.ClosedRange:
			s, en = r.Start, r.End
		case *value.OpenRange:
			s, en = r.Start, r.End
		case *value.LeftOpenRange:
			s, en = r.Start, r.End
		case *value.RightOpenRange:
			s, en = r.Start, r.End
		default:
			return true
		}
		if !Conforms(c, s, args[0], e) || !Conforms(c, en, args[0], e) {
			return c.fail("bound of %s: %s", types.Inspect(g), c.Why)
		}
	}
	return true
}

// Check is the one-call form: does v conform to t (no type-parameter bindings, no self)?
// th is only used to iterate hash sets element-wise; it must not be a thread that is running bytecode.
func Check(th *vm.Thread, env *types.GlobalEnvironment, v value.Value, t types.Type) (ok bool, why string) {
	c := &Ctx{Th: th, GlobalEnv: env}
	ok = Conforms(c, v, t, nil)
	return ok, c.Why
}

// Kind is a coarse label of a static type for histograms.
func Kind(t types.Type) string {
	switch tt := t.(type) {
	case nil:
		return "none"
	case types.Any:
		return "any"
	case types.Void:
		return "void"
	case types.Untyped, types.NoValue:
		return "untyped"
	case types.Never:
		return "never"
	case types.Nil:
		return "nil"
	case types.Bool:
		return "bool"
	case types.True, types.False:
		return "literal"
	case types.Self:
		return "self"
	case *types.NamedType:
		return "named:" + Kind(tt.Type)
	case *types.Nilable:
		return "nilable"
	case *types.Union:
		return "union"
	case *types.Intersection:
		return "intersection"
	case *types.Not:
		return "not"
	case *types.TypeParameter:
		return "type_parameter"
	case *types.Class:
		return "class"
	case *types.Mixin:
		return "mixin"
	case *types.Module:
		return "module"
	case *types.Interface, *types.InterfaceProxy:
		return "interface"
	case *types.Generic:
		return "generic"
	case *types.SingletonClass:
		return "singleton_class"
	case *types.Exact:
		return "exact"
	case *types.Callable:
		return "callable"
	case *types.IntLiteral, *types.StringLiteral, *types.SymbolLiteral, *types.CharLiteral, *types.FloatLiteral:
		return "literal"
	}
	if t.IsLiteral() {
		return "literal"
	}
	return "other"
}
