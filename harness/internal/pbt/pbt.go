// Package pbt is the shared property-based-testing frame used by every
// property package under verif/props.
//
// A property is a generator (rapid draws only) producing a JSON-serialisable
// case, plus an oracle that decides the case without any randomness.  The same
// test function runs in two modes, chosen by the driver through VERIF_MODE:
//
//	search  – rapid.Check over Gen, then Oracle; failures are shrunk by rapid and
//	          the minimal case is written as a replay file
//	replay  – every file in VERIF_REPLAY_DIR whose "test" field names this
//	          property is decoded and sent through Oracle, bypassing rapid
//
// Evidence (evaluations, distinct non-trivial cases, labels, samples,
// exclusions) is counted here and written per shard; the driver merges shards.
package pbt

import (
	"encoding/json"
	"flag"
	"fmt"
	"hash/fnv"
	"os"
	"path/filepath"
	"runtime/debug"
	"sort"
	"strconv"
	"strings"
	"sync"
	"testing"
	"time"

	"pgregory.net/rapid"
)

// Ctx is handed to the oracle so that it can classify the case.
type Ctx struct {
	labels     []string
	nontrivial bool
	key        string
	note       string
	excluded   []string
	Replay     bool
}

// KnownActive reports whether known_findings.json lists key with status "known"
// for the property under test (oracles use it for sub-check exclusions).
func KnownActive(key string) bool { return !replayingKnown && knownActive(propID, key) }

// set while the replay file of a known finding is re-executed: the oracle must
// then run without its exclusions so that the finding is actually reproduced
var replayingKnown bool

// Excluded counts a sub-check skipped because of a recorded known finding.
func (c *Ctx) Excluded(key string) { c.excluded = append(c.excluded, key) }

// Label adds a histogram label for this case.
func (c *Ctx) Label(l string) { c.labels = append(c.labels, l) }

// NonTrivial marks the case as non-trivial by the property's stated rule;
// key is the canonical text hashed for the distinct count.
func (c *Ctx) NonTrivial(key string) { c.nontrivial = true; c.key = key }

// Note attaches free text that is stored with a sample of this case.
func (c *Ctx) Note(s string) { c.note = s }

// Known describes an input-side exclusion for a recorded finding.
type Known[C any] struct {
	Key   string
	Match func(C) bool
}

// Prop is one executable property.
type Prop[C any] struct {
	Name     string // unique inside the package; also the "test" field of replay files
	Quick    int    // cases per run (all shards together) in the quick tier
	Thorough int
	Gen      func(*rapid.T) C
	Oracle   func(C, *Ctx) error
	Known    []Known[C]
	// Sample renders a case for the evidence file (default: the case itself).
	Sample func(C) any
	// Minimize, if set, reduces the final failing case further (domain-specific
	// reduction after rapid's own shrinking); the result must still fail.
	Minimize func(C) C
	// HangSeconds > 0: an oracle call running longer than this is a violation
	// of kind "hang" (the case is persisted and the process exits with status 3).
	HangSeconds int
}

type replayFile struct {
	Property string          `json:"property"`
	Test     string          `json:"test"`
	Case     json.RawMessage `json:"case"`
	Observed string          `json:"observed,omitempty"`
	Known    string          `json:"known,omitempty"`
}

type shardEvidence struct {
	Property     string            `json:"property"`
	Tests        map[string]*tstat `json:"tests"`
	Distinct     []uint64          `json:"distinct"`
	DistinctCap  bool              `json:"distinct_capped"`
	Violations   []violation       `json:"violations"`
	KnownLines   []string          `json:"known_lines"`
	Inconclusive int64             `json:"inconclusive"`
	// cases discarded because the harness's generator left its domain (oracle error starting with GENERATOR)
	GeneratorFaults       int64    `json:"generator_faults"`
	GeneratorFaultSamples []string `json:"generator_fault_samples,omitempty"`
}

type tstat struct {
	Evaluations int64            `json:"evaluations"`
	NonTrivial  int64            `json:"nontrivial_evaluations"`
	Labels      map[string]int64 `json:"labels"`
	Excluded    map[string]int64 `json:"excluded"`
	Samples     []any            `json:"samples"`
	Rule        string           `json:"rule,omitempty"`
	WallS       float64          `json:"wall_s"`
	Requested   int              `json:"requested"`
}

type violation struct {
	Test   string `json:"test"`
	Replay string `json:"replay"`
	Msg    string `json:"msg"`
}

var (
	mu       sync.Mutex
	propID   string
	state    = shardEvidence{Tests: map[string]*tstat{}}
	distinct = map[uint64]struct{}{}
	rules    = map[string]string{}
)

const distinctCap = 4_000_000

// Env helpers --------------------------------------------------------------

func Tier() string {
	if t := os.Getenv("VERIF_TIER"); t == "thorough" {
		return "thorough"
	}
	return "quick"
}

func Mode() string {
	if m := os.Getenv("VERIF_MODE"); m != "" {
		return m
	}
	return "search"
}

func Seed() uint64 {
	s, _ := strconv.ParseUint(os.Getenv("VERIF_SEED"), 10, 64)
	return s
}

func Shard() (idx, n int) {
	idx, _ = strconv.Atoi(os.Getenv("VERIF_SHARD"))
	n, _ = strconv.Atoi(os.Getenv("VERIF_SHARDS"))
	if n <= 0 {
		n = 1
	}
	return
}

// Scale lets a developer shrink/grow all case counts (VERIF_SCALE=0.1).
func scale() float64 {
	if s, err := strconv.ParseFloat(os.Getenv("VERIF_SCALE"), 64); err == nil && s > 0 {
		return s
	}
	return 1
}

func knownActive(prop, key string) bool {
	for _, k := range loadKnown() {
		if k.Property == prop && k.Key == key && k.Status == "known" {
			return true
		}
	}
	return false
}

type KnownEntry struct {
	Property    string `json:"property"`
	Key         string `json:"key"`
	Status      string `json:"status"` // known | fixed
	Commit      string `json:"commit,omitempty"`
	Description string `json:"description"`
	Replay      string `json:"replay,omitempty"`
}

var (
	knownOnce sync.Once
	knownList []KnownEntry
)

func loadKnown() []KnownEntry {
	knownOnce.Do(func() {
		p := os.Getenv("VERIF_KNOWN")
		if p == "" {
			p = "/verif/known_findings.json"
		}
		b, err := os.ReadFile(p)
		if err != nil {
			return
		}
		var f struct {
			Findings []KnownEntry `json:"findings"`
		}
		if json.Unmarshal(b, &f) == nil {
			knownList = f.Findings
		}
	})
	return knownList
}

// Main is called from each package's TestMain.
func Main(m *testing.M, property string) {
	propID = property
	state.Property = property
	flag.Parse()
	_ = flag.Set("rapid.nofailfile", "true")
	if os.Getenv("VERIF_SHRINKTIME") != "" {
		_ = flag.Set("rapid.shrinktime", os.Getenv("VERIF_SHRINKTIME"))
	} else {
		_ = flag.Set("rapid.shrinktime", "20s")
	}
	code := m.Run()
	flush()
	os.Exit(code)
}

func flush() {
	mu.Lock()
	defer mu.Unlock()
	out := os.Getenv("VERIF_EVIDENCE_OUT")
	if out == "" {
		return
	}
	state.Distinct = state.Distinct[:0]
	for h := range distinct {
		state.Distinct = append(state.Distinct, h)
	}
	sort.Slice(state.Distinct, func(i, j int) bool { return state.Distinct[i] < state.Distinct[j] })
	b, _ := json.Marshal(&state)
	_ = os.WriteFile(out, b, 0o644)
}

func hash64(s string) uint64 {
	h := fnv.New64a()
	h.Write([]byte(s))
	return h.Sum64()
}

func stat(name string) *tstat {
	s := state.Tests[name]
	if s == nil {
		s = &tstat{Labels: map[string]int64{}, Excluded: map[string]int64{}}
		state.Tests[name] = s
	}
	return s
}

// Rule records the stated generation / non-triviality rule of a property.
func Rule(name, rule string) {
	mu.Lock()
	stat(name).Rule = rule
	mu.Unlock()
}

// Inconclusive counts a case that could not be decided (timeout etc.).
func Inconclusive() {
	mu.Lock()
	state.Inconclusive++
	mu.Unlock()
}

func record(name string, c *Ctx, sample func() any) {
	mu.Lock()
	defer mu.Unlock()
	s := stat(name)
	s.Evaluations++
	for _, l := range c.labels {
		s.Labels[l]++
	}
	for _, k := range c.excluded {
		s.Excluded[k]++
	}
	if c.nontrivial {
		s.NonTrivial++
		if len(distinct) < distinctCap {
			distinct[hash64(name+"\x00"+c.key)] = struct{}{}
		} else {
			state.DistinctCap = true
		}
	}
	// first 3 cases + deterministic sparse reservoir, non-trivial preferred
	n := s.Evaluations
	if len(s.Samples) < 3 || (c.nontrivial && len(s.Samples) < 8 && n&(n-1) == 0) {
		v := sample()
		if c.note != "" {
			v = map[string]any{"case": v, "note": c.note}
		}
		s.Samples = append(s.Samples, v)
	}
}

// Run executes the property in the mode selected by the driver.
func Run[C any](t *testing.T, p Prop[C]) {
	t.Helper()
	if p.Sample == nil {
		p.Sample = func(c C) any { return c }
	}
	var active []Known[C]
	for _, k := range p.Known {
		if knownActive(propID, k.Key) {
			active = append(active, k)
		}
	}
	switch Mode() {
	case "replay":
		runReplay(t, p)
		return
	case "off":
		t.Skip("VERIF_MODE=off")
	}
	if only := os.Getenv("VERIF_ONLY"); only != "" && !strings.Contains(p.Name, only) {
		t.Skip("VERIF_ONLY")
	}

	idx, n := Shard()
	total := p.Quick
	if Tier() == "thorough" {
		total = p.Thorough
	}
	total = int(float64(total) * scale())
	checks := total / n
	if idx < total%n {
		checks++
	}
	if checks <= 0 {
		checks = 1
	}
	seed := hash64(fmt.Sprintf("%d/%d/%s/%s", Seed(), idx, propID, p.Name))
	if seed == 0 {
		seed = 1
	}
	_ = flag.Set("rapid.checks", strconv.Itoa(checks))
	_ = flag.Set("rapid.seed", strconv.FormatUint(seed, 10))
	mu.Lock()
	stat(p.Name).Requested = checks
	mu.Unlock()

	var last *C
	var lastMsg string
	start := time.Now()
	t.Cleanup(func() {
		mu.Lock()
		stat(p.Name).WallS = time.Since(start).Seconds()
		mu.Unlock()
		if t.Failed() && last != nil {
			if p.Minimize != nil && os.Getenv("VERIF_NO_MINIMIZE") == "" {
				func() {
					defer func() { _ = recover() }()
					m := p.Minimize(*last)
					if err := safeOracle(p.Oracle, m, &Ctx{}); err != nil {
						*last, lastMsg = m, err.Error()
					}
				}()
			}
			path := writeReplay(p.Name, *last, lastMsg)
			mu.Lock()
			state.Violations = append(state.Violations, violation{Test: p.Name, Replay: path, Msg: trunc(lastMsg, 2000)})
			mu.Unlock()
			flush()
		}
	})

	rapid.Check(t, func(rt *rapid.T) {
		c := p.Gen(rt)
		for _, k := range active {
			if k.Match(c) {
				mu.Lock()
				stat(p.Name).Excluded[k.Key]++
				mu.Unlock()
				return
			}
		}
		last = &c
		lastMsg = ""
		if j := os.Getenv("VERIF_JOURNAL"); j != "" {
			// the code under test may kill the process (Go fatal error): persist the case first
			cb, _ := json.Marshal(c)
			rf := replayFile{Property: propID, Test: p.Name, Case: cb}
			b, _ := json.Marshal(&rf)
			_ = os.WriteFile(j, b, 0o644)
		}
		ctx := &Ctx{}
		var wd *time.Timer
		if p.HangSeconds > 0 {
			wd = time.AfterFunc(time.Duration(p.HangSeconds)*time.Second, func() {
				path := writeReplay(p.Name+"-hang", c, fmt.Sprintf("no result after %d s (hang)", p.HangSeconds))
				fmt.Printf("HANG %s\n", path)
				os.Exit(3)
			})
		}
		err := safeOracle(p.Oracle, c, ctx)
		if wd != nil {
			wd.Stop()
		}
		if err != nil && os.Getenv("VERIF_SURVEY") != "" {
			// developer triage mode: histogram of failure signatures, search continues
			sig := surveySig(err.Error())
			ctx.Label("FAIL " + sig)
			mu.Lock()
			if _, seen := surveyFirst[sig]; !seen {
				cb, _ := json.Marshal(c)
				surveyFirst[sig] = trunc(string(cb), 600) + "  =>  " + trunc(err.Error(), 400)
				fmt.Printf("SURVEY %s\n   %s\n", sig, surveyFirst[sig])
				_ = os.MkdirAll("/tmp/survey", 0o755)
				full, _ := json.MarshalIndent(map[string]any{"sig": sig, "case": c, "err": err.Error()}, "", " ")
				_ = os.WriteFile(fmt.Sprintf("/tmp/survey/%016x.json", hash64(sig)), full, 0o644)
			}
			mu.Unlock()
			err = nil
		}
		if err != nil && IsGeneratorFault(err) {
			// the harness's own generator produced a case outside its intended domain (e.g. a program the checker
			// rejects for a typing corner the generator does not model): that says nothing about the property.
			// The case is discarded and counted; the driver turns a run with more than a few of them into
			// "inconclusive" (generator health), never into a violation.
			ctx.Label("generator_fault")
			mu.Lock()
			state.Inconclusive++
			state.GeneratorFaults++
			if len(state.GeneratorFaultSamples) < 3 {
				state.GeneratorFaultSamples = append(state.GeneratorFaultSamples, trunc(err.Error(), 600))
			}
			mu.Unlock()
			err = nil
		}
		record(p.Name, ctx, func() any { return p.Sample(c) })
		if err != nil {
			lastMsg = err.Error()
			rt.Fatalf("%s: %v", p.Name, err)
		}
	})
}

var surveyFirst = map[string]string{}

// IsGeneratorFault reports whether an oracle error blames the harness's generator rather than the code under test.
func IsGeneratorFault(err error) bool {
	return err != nil && strings.HasPrefix(err.Error(), "GENERATOR")
}

// surveySig strips the variable parts (digits, quoted text) of a message.
func surveySig(msg string) string {
	if i := strings.IndexByte(msg, '\n'); i >= 0 {
		msg = msg[:i]
	}
	var b strings.Builder
	inq := false
	for _, r := range msg {
		switch {
		case r == '"' || r == '`':
			inq = !inq
			b.WriteRune(r)
		case inq:
		case r >= '0' && r <= '9':
			if b.Len() == 0 || !strings.HasSuffix(b.String(), "N") {
				b.WriteByte('N')
			}
		default:
			b.WriteRune(r)
		}
	}
	return trunc(b.String(), 110)
}

func safeOracle[C any](o func(C, *Ctx) error, c C, ctx *Ctx) (err error) {
	defer func() {
		if r := recover(); r != nil {
			err = fmt.Errorf("harness-level panic (oracle or code under test): %v\n%s", r, trunc(string(debug.Stack()), 3000))
		}
	}()
	return o(c, ctx)
}

func trunc(s string, n int) string {
	if len(s) > n {
		return s[:n] + "…"
	}
	return s
}

func writeReplay[C any](name string, c C, msg string) string {
	name, hang := strings.CutSuffix(name, "-hang")
	dir := os.Getenv("VERIF_FAIL_DIR")
	if dir == "" {
		dir = os.TempDir()
	}
	_ = os.MkdirAll(dir, 0o755)
	cb, _ := json.Marshal(c)
	rf := replayFile{Property: propID, Test: name, Case: cb, Observed: trunc(msg, 4000)}
	b, _ := json.MarshalIndent(&rf, "", " ")
	path := filepath.Join(dir, fmt.Sprintf("%s-%016x.json", name, hash64(string(cb))))
	if hang {
		path = filepath.Join(dir, fmt.Sprintf("hang-%s-%016x.json", name, hash64(string(cb))))
	}
	_ = os.WriteFile(path, b, 0o644)
	return path
}

func runReplay[C any](t *testing.T, p Prop[C]) {
	var files []string
	if f := os.Getenv("VERIF_REPLAY_FILE"); f != "" {
		files = []string{f}
	} else {
		dir := os.Getenv("VERIF_REPLAY_DIR")
		if dir == "" {
			return
		}
		_ = filepath.Walk(dir, func(path string, info os.FileInfo, err error) error {
			if err == nil && !info.IsDir() && strings.HasSuffix(path, ".json") {
				files = append(files, path)
			}
			return nil
		})
		sort.Strings(files)
	}
	for _, f := range files {
		b, err := os.ReadFile(f)
		if err != nil {
			continue
		}
		var rf replayFile
		if json.Unmarshal(b, &rf) != nil || rf.Test != p.Name {
			continue
		}
		var c C
		if err := json.Unmarshal(rf.Case, &c); err != nil {
			t.Errorf("replay %s: cannot decode case: %v", f, err)
			continue
		}
		ctx := &Ctx{Replay: true}
		replayingKnown = rf.Known != ""
		oerr := safeOracle(p.Oracle, c, ctx)
		replayingKnown = false
		mu.Lock()
		s := stat(p.Name)
		s.Labels["replayed"]++
		mu.Unlock()
		if rf.Known != "" && knownActive(propID, rf.Known) {
			if oerr != nil {
				desc := ""
				for _, k := range loadKnown() {
					if k.Property == propID && k.Key == rf.Known {
						desc = k.Description
					}
				}
				line := fmt.Sprintf("KNOWN-FINDING: property=%s %s: %s", propID, rf.Known, desc)
				mu.Lock()
				state.KnownLines = append(state.KnownLines, line)
				mu.Unlock()
			}
			continue
		}
		if oerr != nil {
			mu.Lock()
			state.Violations = append(state.Violations, violation{Test: p.Name, Replay: f, Msg: trunc(oerr.Error(), 2000)})
			mu.Unlock()
			t.Errorf("replay %s: %v", f, oerr)
		}
	}
}
