package vgen

import (
	"fmt"
	"math"
	"math/big"
	"strconv"

	"github.com/elk-language/elk/value"
	"pgregory.net/rapid"
)

// VSpec is a JSON-serialisable description of an Elk value.
type VSpec struct {
	K string  `json:"k"`           // int float bigfloat i8 i16 i32 i64 u8 u16 u32 u64 uint f32 f64 str char sym bool nil list tuple pair
	S string  `json:"s,omitempty"` // decimal digits / float bits in hex / text
	B []byte  `json:"b,omitempty"` // string bytes (may be invalid UTF-8)
	E []VSpec `json:"e,omitempty"`
}

func (s VSpec) String() string {
	switch s.K {
	case "str":
		return fmt.Sprintf("str(%q)", string(s.B))
	case "list", "tuple", "pair":
		return fmt.Sprintf("%s%v", s.K, s.E)
	case "float", "f64":
		u, _ := strconv.ParseUint(s.S, 16, 64)
		return fmt.Sprintf("%s(%v)", s.K, math.Float64frombits(u))
	case "f32":
		u, _ := strconv.ParseUint(s.S, 16, 32)
		return fmt.Sprintf("f32(%v)", math.Float32frombits(uint32(u)))
	}
	return s.K + "(" + s.S + ")"
}

var IntKinds = []string{"i8", "i16", "i32", "i64", "u8", "u16", "u32", "u64", "uint"}

func kindBits(k string) (bits uint, signed bool) {
	switch k {
	case "i8":
		return 8, true
	case "i16":
		return 16, true
	case "i32":
		return 32, true
	case "i64":
		return 64, true
	case "u8":
		return 8, false
	case "u16":
		return 16, false
	case "u32":
		return 32, false
	case "u64", "uint":
		return 64, false
	}
	return 0, false
}

// KindRange returns [min, max] of a fixed-width kind.
func KindRange(k string) (*big.Int, *big.Int) {
	bits, signed := kindBits(k)
	if signed {
		hi := new(big.Int).Lsh(big.NewInt(1), bits-1)
		return new(big.Int).Neg(hi), new(big.Int).Sub(hi, big.NewInt(1))
	}
	return big.NewInt(0), new(big.Int).Sub(new(big.Int).Lsh(big.NewInt(1), bits), big.NewInt(1))
}

// Wrap reduces n to the two's-complement range of kind k.
func Wrap(k string, n *big.Int) *big.Int {
	bits, signed := kindBits(k)
	mod := new(big.Int).Lsh(big.NewInt(1), bits)
	r := new(big.Int).Mod(n, mod) // Euclidean: 0 <= r < 2^bits
	if signed && r.Bit(int(bits-1)) == 1 {
		r.Sub(r, mod)
	}
	return r
}

// FixedInt draws a boundary-biased value of a fixed-width kind.
func FixedInt(t *rapid.T, k, label string) *big.Int {
	lo, hi := KindRange(k)
	switch rapid.IntRange(0, 5).Draw(t, label+"_how") {
	case 0:
		return new(big.Int).Add(lo, big.NewInt(int64(rapid.IntRange(0, 3).Draw(t, label+"_lo"))))
	case 1:
		return new(big.Int).Sub(hi, big.NewInt(int64(rapid.IntRange(0, 3).Draw(t, label+"_hi"))))
	case 2:
		return Wrap(k, big.NewInt(int64(rapid.IntRange(-3, 3).Draw(t, label+"_z"))))
	case 3:
		bits, _ := kindBits(k)
		v := new(big.Int).Lsh(big.NewInt(1), uint(rapid.IntRange(0, int(bits)).Draw(t, label+"_p")))
		v.Add(v, big.NewInt(int64(rapid.IntRange(-1, 1).Draw(t, label+"_d"))))
		return Wrap(k, v)
	default:
		return Wrap(k, new(big.Int).SetUint64(rapid.Uint64().Draw(t, label+"_r")))
	}
}

var floatSpecials = []float64{0, math.Copysign(0, -1), 1, -1, 0.5, 1.5, 2.5, -2.5, 5, 127, 128, 255, 256, 1e15, 1e16, 1e22, 1e23, 1e300, 1e-300,
	9007199254740992, 9007199254740993, 9007199254740994, 9007199254740991, -9007199254740992, 9223372036854775807, 9223372036854775808, -9223372036854775808,
	18446744073709551615, 18446744073709551616, 4294967295, 4294967296, 2147483647, -2147483648, 3.4028234663852886e38, 1.401298464324817e-45, 16777216, 16777217,
	math.SmallestNonzeroFloat64, math.MaxFloat64, -math.MaxFloat64, math.Inf(1), math.Inf(-1), math.NaN(), math.Pi, 0.1, 0.3, 1.0 / 3}

// Float64 draws a float with bias to special values.
func Float64(t *rapid.T, label string) float64 {
	switch rapid.IntRange(0, 3).Draw(t, label+"_fk") {
	case 0, 1:
		return rapid.SampledFrom(floatSpecials).Draw(t, label+"_sp")
	case 2:
		return math.Float64frombits(rapid.Uint64().Draw(t, label+"_bits"))
	default:
		return float64(rapid.IntRange(-1000, 1000).Draw(t, label+"_n")) / float64(rapid.SampledFrom([]int{1, 2, 4, 8, 10, 3}).Draw(t, label+"_d"))
	}
}

func f64spec(k string, f float64) VSpec {
	return VSpec{K: k, S: strconv.FormatUint(math.Float64bits(f), 16)}
}

// Number draws a numeric value spec; similar magnitudes across kinds are likely.
func Number(t *rapid.T, label string) VSpec {
	switch rapid.IntRange(0, 9).Draw(t, label+"_nk") {
	case 0, 1:
		return VSpec{K: "int", S: BigInt(t, label).String()}
	case 2:
		return f64spec("float", Float64(t, label))
	case 3:
		return f64spec("f64", Float64(t, label))
	case 4:
		f := float32(Float64(t, label))
		return VSpec{K: "f32", S: strconv.FormatUint(uint64(math.Float32bits(f)), 16)}
	case 5:
		f := Float64(t, label)
		if math.IsNaN(f) || math.IsInf(f, 0) {
			return VSpec{K: "bigfloat", S: map[bool]string{true: "NaN", false: map[bool]string{true: "+Inf", false: "-Inf"}[f > 0]}[math.IsNaN(f)]}
		}
		return VSpec{K: "bigfloat", S: strconv.FormatFloat(f, 'g', -1, 64)}
	case 6:
		// an integer-valued float / an integer near a float special
		f := rapid.SampledFrom(floatSpecials).Draw(t, label+"_isp")
		if math.IsNaN(f) || math.IsInf(f, 0) || math.Abs(f) > 1e30 {
			f = 5
		}
		b, _ := new(big.Float).SetFloat64(math.Trunc(f)).Int(nil)
		b.Add(b, big.NewInt(int64(rapid.IntRange(-1, 1).Draw(t, label+"_id"))))
		return VSpec{K: "int", S: b.String()}
	default:
		k := rapid.SampledFrom(IntKinds).Draw(t, label+"_ik")
		return VSpec{K: k, S: FixedInt(t, k, label).String()}
	}
}

var strPieces = []string{"", "a", "b", "A", "ab", "foo", " ", "\n", "é", "é", "日本", "👨‍👩‍👧", "ß", "ǆ", "\x00", "\xff", "\xc3", "$", "#", "\"", "\\", "\u0080", " ", " ", "İ", "ſ", "K"}

// Str draws string bytes incl. multi-byte, combining and invalid sequences.
func Str(t *rapid.T, label string) []byte {
	n := rapid.IntRange(0, 4).Draw(t, label+"_n")
	var b []byte
	for i := 0; i < n; i++ {
		if rapid.IntRange(0, 6).Draw(t, label+"_raw") == 0 {
			b = append(b, rapid.StringN(0, 3, -1).Draw(t, label+"_s")...)
		} else {
			b = append(b, rapid.SampledFrom(strPieces).Draw(t, label+"_p")...)
		}
	}
	return b
}

// Scalar draws any non-collection value.
func Scalar(t *rapid.T, label string) VSpec {
	switch rapid.IntRange(0, 9).Draw(t, label+"_sk") {
	case 0, 1, 2, 3, 4:
		return Number(t, label)
	case 5, 6:
		return VSpec{K: "str", B: Str(t, label)}
	case 7:
		r := rapid.SampledFrom([]rune{'a', 'b', 'A', 'é', '日', '\n', 0, 0x80, 0xff, 0x1F600, '5'}).Draw(t, label+"_c")
		return VSpec{K: "char", S: strconv.Itoa(int(r))}
	case 8:
		return VSpec{K: "sym", S: rapid.SampledFrom([]string{"a", "b", "foo", "A", "", "foo bar", "é", "5"}).Draw(t, label+"_sym")}
	default:
		return rapid.SampledFrom([]VSpec{{K: "bool", S: "true"}, {K: "bool", S: "false"}, {K: "nil"}}).Draw(t, label+"_c")
	}
}

// Any draws a value spec up to the given collection depth.
func Any(t *rapid.T, label string, depth int) VSpec {
	if depth <= 0 || rapid.IntRange(0, 3).Draw(t, label+"_coll") != 0 {
		return Scalar(t, label)
	}
	k := rapid.SampledFrom([]string{"list", "tuple", "pair"}).Draw(t, label+"_ck")
	n := rapid.IntRange(0, 3).Draw(t, label+"_len")
	if k == "pair" {
		n = 2
	}
	var e []VSpec
	for i := 0; i < n; i++ {
		e = append(e, Any(t, fmt.Sprintf("%s_%d", label, i), depth-1))
	}
	return VSpec{K: k, E: e}
}

// Build constructs the Elk value.
func Build(s VSpec) value.Value {
	switch s.K {
	case "int":
		b, _ := new(big.Int).SetString(s.S, 10)
		// B[0] selects the route by which the runtime itself produces the integer: the result must be
		// indistinguishable from the directly built one (same representation, hash, equality)
		if len(s.B) == 1 {
			one := value.SmallInt(1).ToValue()
			var v, err value.Value
			switch s.B[0] {
			case 1: // negation of the opposite number
				v = value.NegateVal(ElkInt(new(big.Int).Neg(b)))
			case 2: // (n - 1) + 1
				v, err = value.AddVal(ElkInt(new(big.Int).Sub(b, big.NewInt(1))), one)
			case 3: // (n + 1) - 1
				v, err = value.SubtractVal(ElkInt(new(big.Int).Add(b, big.NewInt(1))), one)
			case 4: // (n * 2) / 2
				v, err = value.DivideVal(ElkInt(new(big.Int).Mul(b, big.NewInt(2))), value.SmallInt(2).ToValue())
			}
			if !v.IsUndefined() && err.IsUndefined() {
				return v
			}
		}
		return ElkInt(b)
	case "float":
		u, _ := strconv.ParseUint(s.S, 16, 64)
		return value.Float(math.Float64frombits(u)).ToValue()
	case "f64":
		u, _ := strconv.ParseUint(s.S, 16, 64)
		return value.Float64(math.Float64frombits(u)).ToValue()
	case "f32":
		u, _ := strconv.ParseUint(s.S, 16, 32)
		return value.Float32(math.Float32frombits(uint32(u))).ToValue()
	case "bigfloat":
		switch s.S {
		case "NaN":
			return value.Ref(value.BigFloatNaN())
		case "+Inf":
			return value.Ref(value.BigFloatInf())
		case "-Inf":
			return value.Ref(value.BigFloatNegInf())
		}
		return value.Ref(value.ParseBigFloatPanic(s.S))
	case "i8", "i16", "i32", "i64", "u8", "u16", "u32", "u64", "uint":
		b, _ := new(big.Int).SetString(s.S, 10)
		switch s.K {
		case "i8":
			return value.Int8(b.Int64()).ToValue()
		case "i16":
			return value.Int16(b.Int64()).ToValue()
		case "i32":
			return value.Int32(b.Int64()).ToValue()
		case "i64":
			return value.Int64(b.Int64()).ToValue()
		case "u8":
			return value.UInt8(b.Uint64()).ToValue()
		case "u16":
			return value.UInt16(b.Uint64()).ToValue()
		case "u32":
			return value.UInt32(b.Uint64()).ToValue()
		case "u64":
			return value.UInt64(b.Uint64()).ToValue()
		default:
			return value.UInt(b.Uint64()).ToValue()
		}
	case "str":
		return value.Ref(value.String(s.B))
	case "char":
		n, _ := strconv.Atoi(s.S)
		return value.Char(rune(n)).ToValue()
	case "sym":
		return value.ToSymbol(s.S).ToValue()
	case "bool":
		return value.BoolVal(s.S == "true")
	case "nil":
		return value.Nil
	case "list":
		l := value.NewArrayListOfValue(len(s.E))
		for _, e := range s.E {
			l.Append(Build(e))
		}
		return value.Ref(l)
	case "tuple":
		l := value.NewArrayTupleOfValue(len(s.E))
		for _, e := range s.E {
			l.Append(Build(e))
		}
		return value.Ref(l)
	case "pair":
		return value.Ref(value.NewPairOfValue(Build(s.E[0]), Build(s.E[1])))
	}
	panic("vgen: unknown kind " + s.K)
}

// IsNumber reports whether the spec is numeric; NaN reports whether it is a NaN.
func IsNumber(s VSpec) bool {
	switch s.K {
	case "int", "float", "f64", "f32", "bigfloat", "i8", "i16", "i32", "i64", "u8", "u16", "u32", "u64", "uint":
		return true
	}
	return false
}

func ContainsNaN(s VSpec) bool {
	switch s.K {
	case "float", "f64":
		u, _ := strconv.ParseUint(s.S, 16, 64)
		return math.IsNaN(math.Float64frombits(u))
	case "f32":
		u, _ := strconv.ParseUint(s.S, 16, 32)
		f := math.Float32frombits(uint32(u))
		return f != f
	case "bigfloat":
		return s.S == "NaN"
	}
	for _, e := range s.E {
		if ContainsNaN(e) {
			return true
		}
	}
	return false
}

// Exact returns the exact rational value of a numeric spec (ok=false for NaN/Inf).
func Exact(s VSpec) (r *big.Rat, inf int, ok bool) {
	switch s.K {
	case "int", "i8", "i16", "i32", "i64", "u8", "u16", "u32", "u64", "uint":
		b, _ := new(big.Int).SetString(s.S, 10)
		return new(big.Rat).SetInt(b), 0, true
	case "float", "f64":
		u, _ := strconv.ParseUint(s.S, 16, 64)
		f := math.Float64frombits(u)
		if math.IsNaN(f) {
			return nil, 0, false
		}
		if math.IsInf(f, 0) {
			return nil, map[bool]int{true: 1, false: -1}[f > 0], true
		}
		return new(big.Rat).SetFloat64(f), 0, true
	case "f32":
		u, _ := strconv.ParseUint(s.S, 16, 32)
		f := float64(math.Float32frombits(uint32(u)))
		if math.IsNaN(f) {
			return nil, 0, false
		}
		if math.IsInf(f, 0) {
			return nil, map[bool]int{true: 1, false: -1}[f > 0], true
		}
		return new(big.Rat).SetFloat64(f), 0, true
	case "bigfloat":
		switch s.S {
		case "NaN":
			return nil, 0, false
		case "+Inf":
			return nil, 1, true
		case "-Inf":
			return nil, -1, true
		}
		f, _ := strconv.ParseFloat(s.S, 64)
		return new(big.Rat).SetFloat64(f), 0, true
	}
	return nil, 0, false
}
