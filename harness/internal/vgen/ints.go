// Package vgen holds boundary-biased value generators shared by the
// value-level property packages.
package vgen

import (
	"math/big"

	"github.com/elk-language/elk/value"
	"pgregory.net/rapid"
)

var boundaryBits = []uint{7, 8, 15, 16, 31, 32, 52, 53, 62, 63, 64, 65, 127, 128}

// BigInt draws an integer on both sides of the machine-word boundary.
var corners = func() []*big.Int {
	var out []*big.Int
	for _, s := range []string{"0", "1", "-1", "2", "-2", "-9223372036854775808", "9223372036854775807", "-9223372036854775807", "9223372036854775808",
		"4611686018427387904", "-4611686018427387904", "4294967296", "-4294967296", "2147483648", "-2147483648", "3037000500", "-3037000500", "18446744073709551615", "18446744073709551616"} {
		b, _ := new(big.Int).SetString(s, 10)
		out = append(out, b)
	}
	return out
}()

func BigInt(t *rapid.T, label string) *big.Int {
	var v *big.Int
	switch rapid.IntRange(0, 10).Draw(t, label+"_kind") {
	case 10:
		// exact corners of the machine-word representations and the units: pairs of these (MinInt64 with -1,
		// MaxInt64 with 2, ...) are where overflow tests of word arithmetic have their single blind spots
		v = new(big.Int).Set(corners[rapid.IntRange(0, len(corners)-1).Draw(t, label+"_corner")])
		return v
	case 0, 1:
		v = big.NewInt(int64(rapid.IntRange(-20, 20).Draw(t, label+"_small")))
	case 2, 3, 4:
		k := rapid.SampledFrom(boundaryBits).Draw(t, label+"_bits")
		v = new(big.Int).Lsh(big.NewInt(1), k)
		v.Add(v, big.NewInt(int64(rapid.IntRange(-3, 3).Draw(t, label+"_delta"))))
	case 5:
		v = big.NewInt(rapid.Int64().Draw(t, label+"_i64"))
	case 6:
		// product of two boundary values
		a := new(big.Int).Lsh(big.NewInt(1), rapid.SampledFrom(boundaryBits).Draw(t, label+"_b1"))
		a.Add(a, big.NewInt(int64(rapid.IntRange(-2, 2).Draw(t, label+"_d1"))))
		b := big.NewInt(int64(rapid.IntRange(-1000, 1000).Draw(t, label+"_m")))
		v = a.Mul(a, b)
	default:
		n := rapid.IntRange(1, 4).Draw(t, label+"_limbs")
		v = new(big.Int)
		for i := 0; i < n; i++ {
			v.Lsh(v, 64)
			v.Or(v, new(big.Int).SetUint64(rapid.Uint64().Draw(t, label+"_limb")))
		}
	}
	if rapid.Bool().Draw(t, label+"_neg") {
		v = new(big.Int).Neg(v)
	}
	return v
}

// ElkInt converts a math/big integer into the normalised Elk Int value
// (SmallInt when it fits a machine word, *BigInt otherwise).
func ElkInt(b *big.Int) value.Value {
	if b.IsInt64() {
		return value.SmallInt(b.Int64()).ToValue()
	}
	return value.Ref(value.ToElkBigInt(new(big.Int).Set(b)))
}

// FromElkInt reads an Elk Int back; normalised reports whether the
// representation is the canonical one for the magnitude.
func FromElkInt(v value.Value) (b *big.Int, normalised bool, ok bool) {
	if v.IsSmallInt() {
		return big.NewInt(int64(v.AsSmallInt())), true, true
	}
	if v.IsReference() {
		if bi, is := v.AsReference().(*value.BigInt); is {
			g := bi.ToGoBigInt()
			return new(big.Int).Set(g), !g.IsInt64(), true
		}
	}
	return nil, false, false
}

// Pick draws an index in [0, n) from fair coin flips.  rapid's integer
// generators are deliberately biased towards small values, which starves the
// later alternatives of a weighted choice; coin flips are uniform and still
// shrink towards index 0.
func Pick(t *rapid.T, n int, label string) int {
	if n <= 1 {
		return 0
	}
	v := 0
	for i := 0; (1 << i) < n; i++ {
		if rapid.Bool().Draw(t, label) {
			v |= 1 << i
		}
	}
	return v % n
}
