// Package astcmp is a reflection-based, location-insensitive structural
// comparison of Elk syntax trees (github.com/elk-language/elk/parser/ast), plus
// the generic tree walkers the C05 check needs (node enumeration, splice slots).
//
// Two trees are equal when they have the same shape: the same concrete node
// type at every position and equal values in every field, except
//
//   - source locations (`loc` fields, anything from package position),
//   - data cached on the node by later phases (`typ`, `static` memo fields and
//     every field whose declared type lives in the packages `types` or `value`:
//     resolved methods, element types, compiled bytecode),
//
// Tokens (`*token.Token`) are compared by Type and Value.  A nil slice equals an
// empty slice.  Nothing here calls the nodes' own Equal/String methods.
package astcmp

import (
	"fmt"
	"reflect"
	"strings"
)

// skipField reports whether a struct field is outside the structural comparison.
func skipField(f reflect.StructField) bool {
	switch f.Name {
	case "loc", "typ", "static":
		return true
	}
	t := f.Type
	for t.Kind() == reflect.Pointer || t.Kind() == reflect.Slice {
		t = t.Elem()
	}
	p := t.PkgPath()
	return strings.HasSuffix(p, "/position") || strings.HasSuffix(p, "/types") || strings.HasSuffix(p, "/value")
}

// Equal reports whether the two trees are structurally identical.
func Equal(a, b any) bool { return Diff(a, b) == "" }

// Diff returns "" when a and b are structurally identical, otherwise the path
// to and a description of the first difference (depth-first, field order).
func Diff(a, b any) string {
	return diff(reflect.ValueOf(a), reflect.ValueOf(b), "", 0)
}

func typeName(v reflect.Value) string {
	if !v.IsValid() {
		return "nil"
	}
	t := v.Type()
	s := t.String()
	s = strings.TrimPrefix(s, "*ast.")
	return s
}

func isNilish(v reflect.Value) bool {
	if !v.IsValid() {
		return true
	}
	switch v.Kind() {
	case reflect.Interface, reflect.Pointer, reflect.Map, reflect.Slice, reflect.Func, reflect.Chan:
		return v.IsNil()
	}
	return false
}

func diff(a, b reflect.Value, path string, depth int) string {
	if depth > 5000 {
		return path + ": tree deeper than 5000 (cycle?)"
	}
	// unwrap interfaces
	for a.IsValid() && a.Kind() == reflect.Interface && !a.IsNil() {
		a = a.Elem()
	}
	for b.IsValid() && b.Kind() == reflect.Interface && !b.IsNil() {
		b = b.Elem()
	}
	an, bn := isNilish(a), isNilish(b)
	if an || bn {
		if an && bn {
			return ""
		}
		// nil slice == empty slice
		if an && b.Kind() == reflect.Slice && b.Len() == 0 {
			return ""
		}
		if bn && a.Kind() == reflect.Slice && a.Len() == 0 {
			return ""
		}
		if an {
			return fmt.Sprintf("%s: nil vs %s", path, typeName(b))
		}
		return fmt.Sprintf("%s: %s vs nil", path, typeName(a))
	}
	if a.Type() != b.Type() {
		return fmt.Sprintf("%s: %s vs %s", path, typeName(a), typeName(b))
	}
	switch a.Kind() {
	case reflect.Pointer:
		if a.Pointer() == b.Pointer() {
			return ""
		}
		p := path
		if a.Elem().Kind() == reflect.Struct {
			p = path + "/" + typeName(a)
		}
		return diff(a.Elem(), b.Elem(), p, depth+1)
	case reflect.Struct:
		t := a.Type()
		for i := 0; i < t.NumField(); i++ {
			f := t.Field(i)
			if skipField(f) {
				continue
			}
			p := path + "." + f.Name
			if f.Anonymous {
				p = path
			}
			if d := diff(a.Field(i), b.Field(i), p, depth+1); d != "" {
				return d
			}
		}
		return ""
	case reflect.Slice, reflect.Array:
		if a.Len() != b.Len() {
			return fmt.Sprintf("%s: length %d vs %d", path, a.Len(), b.Len())
		}
		for i := 0; i < a.Len(); i++ {
			if d := diff(a.Index(i), b.Index(i), fmt.Sprintf("%s[%d]", path, i), depth+1); d != "" {
				return d
			}
		}
		return ""
	case reflect.String:
		if a.String() != b.String() {
			return fmt.Sprintf("%s: %q vs %q", path, a.String(), b.String())
		}
	case reflect.Bool:
		if a.Bool() != b.Bool() {
			return fmt.Sprintf("%s: %v vs %v", path, a.Bool(), b.Bool())
		}
	case reflect.Int, reflect.Int8, reflect.Int16, reflect.Int32, reflect.Int64:
		if a.Int() != b.Int() {
			return fmt.Sprintf("%s: %d vs %d", path, a.Int(), b.Int())
		}
	case reflect.Uint, reflect.Uint8, reflect.Uint16, reflect.Uint32, reflect.Uint64, reflect.Uintptr:
		if a.Uint() != b.Uint() {
			return fmt.Sprintf("%s: %d vs %d", path, a.Uint(), b.Uint())
		}
	case reflect.Float32, reflect.Float64:
		if a.Float() != b.Float() && !(a.Float() != a.Float() && b.Float() != b.Float()) {
			return fmt.Sprintf("%s: %v vs %v", path, a.Float(), b.Float())
		}
	case reflect.Map:
		if a.Len() != b.Len() {
			return fmt.Sprintf("%s: map size %d vs %d", path, a.Len(), b.Len())
		}
		it := a.MapRange()
		for it.Next() {
			bv := b.MapIndex(it.Key())
			if !bv.IsValid() {
				return fmt.Sprintf("%s: key %v missing", path, it.Key())
			}
			if d := diff(it.Value(), bv, fmt.Sprintf("%s[%v]", path, it.Key()), depth+1); d != "" {
				return d
			}
		}
	default:
		// func / chan / unsafe pointer do not occur in the syntax tree
	}
	return ""
}

// IsNode reports whether v (a non-nil pointer to struct) is a syntax-tree node:
// a struct type of package ast whose name ends in "Node" or that embeds one of
// the node bases.
func IsNode(v reflect.Value) bool {
	if v.Kind() != reflect.Pointer || v.IsNil() || v.Elem().Kind() != reflect.Struct {
		return false
	}
	t := v.Elem().Type()
	if !strings.HasSuffix(t.PkgPath(), "/parser/ast") {
		return false
	}
	if _, ok := t.FieldByName("loc"); ok {
		return true
	}
	return strings.HasSuffix(t.Name(), "Node")
}

// Slot is a place in a tree that holds a child: an interface- or pointer-typed
// struct field, or an element of a slice field.  Value is settable when the tree
// was reached through pointers (it always is for parser output).
type Slot struct {
	Value  reflect.Value // the field / element itself (kind Interface or Pointer)
	Owner  reflect.Type  // struct type that owns the field
	Field  string        // field name
	Depth  int           // node depth of the owner (program = 0)
	InList bool          // element of a slice field
	Index  int           // element index when InList
}

// Visitor callbacks for Walk.  Node is called for every node (pointer to an ast
// struct) in depth-first pre-order with its depth; Slot for every child slot,
// including nil ones and token slots.
type Visitor struct {
	Node func(n reflect.Value, depth int)
	Slot func(s Slot)
}

// Walk traverses the tree below root by reflection, skipping the same fields
// as Diff.
func Walk(root any, vis Visitor) {
	walk(reflect.ValueOf(root), vis, 0, 0)
}

func walk(v reflect.Value, vis Visitor, depth, guard int) {
	if guard > 5000 {
		return
	}
	for v.IsValid() && v.Kind() == reflect.Interface && !v.IsNil() {
		v = v.Elem()
	}
	if isNilish(v) {
		return
	}
	switch v.Kind() {
	case reflect.Pointer:
		if v.Elem().Kind() != reflect.Struct {
			return
		}
		d := depth
		if IsNode(v) {
			if vis.Node != nil {
				vis.Node(v, depth)
			}
			d = depth + 1
		}
		walkStruct(v.Elem(), vis, d, guard+1)
	case reflect.Struct:
		walkStruct(v, vis, depth, guard+1)
	case reflect.Slice:
		for i := 0; i < v.Len(); i++ {
			walk(v.Index(i), vis, depth, guard+1)
		}
	}
}

func walkStruct(s reflect.Value, vis Visitor, depth, guard int) {
	t := s.Type()
	for i := 0; i < t.NumField(); i++ {
		f := t.Field(i)
		if skipField(f) {
			continue
		}
		fv := s.Field(i)
		switch fv.Kind() {
		case reflect.Interface, reflect.Pointer:
			if vis.Slot != nil && f.IsExported() {
				vis.Slot(Slot{Value: fv, Owner: t, Field: f.Name, Depth: depth})
			}
			walk(fv, vis, depth, guard)
		case reflect.Slice:
			ek := fv.Type().Elem().Kind()
			for j := 0; j < fv.Len(); j++ {
				ev := fv.Index(j)
				if vis.Slot != nil && f.IsExported() && (ek == reflect.Interface || ek == reflect.Pointer) {
					vis.Slot(Slot{Value: ev, Owner: t, Field: f.Name, Depth: depth, InList: true, Index: j})
				}
				walk(ev, vis, depth, guard)
			}
		case reflect.Struct:
			walkStruct(fv, vis, depth, guard+1)
		}
	}
}

// NodeName returns the concrete node type name without package ("BinaryExpressionNode").
func NodeName(v reflect.Value) string {
	for v.IsValid() && (v.Kind() == reflect.Interface || v.Kind() == reflect.Pointer) && !v.IsNil() {
		v = v.Elem()
	}
	if !v.IsValid() {
		return "nil"
	}
	return v.Type().Name()
}
