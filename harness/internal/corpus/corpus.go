// Package corpus extracts Elk source strings from the repository's own Go tests
// (`input:` / `source:` fields) and *.elk.test files.  Extraction happens from
// /repo's current working tree; the driver does it once per check run and hands
// the result to the shards through VERIF_CORPUS.
package corpus

import (
	"encoding/json"
	"go/ast"
	"go/parser"
	"go/token"
	"os"
	"path/filepath"
	"sort"
	"strconv"
	"strings"
	"sync"
)

type Entry struct {
	Pkg string `json:"pkg"`  // directory relative to the repo root
	Src string `json:"src"`
}

func RepoRoot() string {
	if r := os.Getenv("ELKPATH"); r != "" {
		return r
	}
	return "/repo"
}

var dirs = []string{"parser", "lexer", "types/checker", "compiler", "vm", "regex/parser", "regex", "regex/lexer"}

// Extract walks the test files.
func Extract(root string) []Entry {
	var out []Entry
	seen := map[string]bool{}
	add := func(pkg, s string) {
		k := pkg + "\x00" + s
		if !seen[k] {
			seen[k] = true
			out = append(out, Entry{pkg, s})
		}
	}
	for _, d := range dirs {
		files, _ := filepath.Glob(filepath.Join(root, d, "*_test.go"))
		sort.Strings(files)
		for _, f := range files {
			fset := token.NewFileSet()
			af, err := parser.ParseFile(fset, f, nil, parser.SkipObjectResolution)
			if err != nil {
				continue
			}
			ast.Inspect(af, func(n ast.Node) bool {
				kv, ok := n.(*ast.KeyValueExpr)
				if !ok {
					return true
				}
				id, ok := kv.Key.(*ast.Ident)
				if !ok || (id.Name != "input" && id.Name != "source") {
					return true
				}
				if s, ok := litString(kv.Value); ok {
					add(d, s)
				}
				return true
			})
		}
		tf, _ := filepath.Glob(filepath.Join(root, d, "*.elk.test"))
		for _, f := range tf {
			if b, err := os.ReadFile(f); err == nil {
				add(d+"/elktest", string(b))
			}
		}
	}
	return out
}

func litString(e ast.Expr) (string, bool) {
	switch v := e.(type) {
	case *ast.BasicLit:
		if v.Kind == token.STRING {
			s, err := strconv.Unquote(v.Value)
			return s, err == nil
		}
	case *ast.BinaryExpr:
		if v.Op == token.ADD {
			a, ok1 := litString(v.X)
			b, ok2 := litString(v.Y)
			return a + b, ok1 && ok2
		}
	case *ast.ParenExpr:
		return litString(v.X)
	}
	return "", false
}

var (
	once   sync.Once
	cached []Entry
)

// Load returns the corpus (from VERIF_CORPUS if present).
func Load() []Entry {
	once.Do(func() {
		if p := os.Getenv("VERIF_CORPUS"); p != "" {
			if b, err := os.ReadFile(p); err == nil && json.Unmarshal(b, &cached) == nil && len(cached) > 0 {
				return
			}
		}
		cached = Extract(RepoRoot())
	})
	return cached
}

// Elk returns the sources that are Elk programs (not regex bodies).
func Elk() []string {
	var out []string
	for _, e := range Load() {
		if !strings.HasPrefix(e.Pkg, "regex") {
			out = append(out, e.Src)
		}
	}
	return out
}

// ByPkg returns sources from one test directory prefix.
func ByPkg(prefix string) []string {
	var out []string
	for _, e := range Load() {
		if strings.HasPrefix(e.Pkg, prefix) {
			out = append(out, e.Src)
		}
	}
	return out
}
