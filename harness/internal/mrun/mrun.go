// Package mrun holds what the MiniElk-based program-level checks share: the
// replayable case (program + reference result), the differential oracle against
// a worker subprocess and the statement-deletion minimiser.
package mrun

import (
	"fmt"
	"strings"
	"time"

	"pgregory.net/rapid"

	"verif/internal/mini"
	"verif/internal/pbt"
	sb "verif/internal/sandbox"
)

// Case is a generated program together with what the reference interpreter says.
type Case struct {
	Prog   *mini.Program  `json:"prog,omitempty"`
	Src    string         `json:"src"`
	Stdout string         `json:"stdout"`
	Err    string         `json:"err"`
	Events map[string]int `json:"events"`
}

// Make runs the reference interpreter on p.
func Make(p *mini.Program) Case {
	r := mini.Run(p)
	return Case{p, p.Source(), r.Stdout, r.Err, r.Events}
}

// Gen draws programs of the profile until the reference interpreter finishes one
// within its step budget.
func Gen(t *rapid.T, prof mini.Profile) Case {
	for tries := 0; ; tries++ {
		p := mini.Gen(t, prof)
		r := mini.Run(p)
		if r.Aborted && tries < 5 {
			continue
		}
		return Case{p, p.Source(), r.Stdout, r.Err, r.Events}
	}
}

// Compare runs the program in the worker and compares stdout and the uncaught
// error with the reference result.  The returned run is valid when err == nil
// and ok is true (ok is false for inconclusive outcomes).
func Compare(w *sb.Worker, c Case, ctx *pbt.Ctx, cfg sb.Cfg) (run sb.Run, ok bool, err error) {
	res := w.Do(sb.Req{Mode: "run", Source: c.Src, Cfg: cfg}, 30*time.Second)
	class, detail := sb.Classify(res)
	ctx.Label("outcome:" + class)
	switch class {
	case sb.Timeout:
		pbt.Inconclusive()
		return run, false, nil
	case sb.Fatal, sb.GoPanic:
		return run, false, fmt.Errorf("interpreter crashed (%s) on a program the reference interpreter runs fine:\n%s", class, Clip(detail, 1500))
	case sb.StackLimit:
		return run, false, fmt.Errorf("stack limit reached (%s) by a program with bounded recursion", detail)
	case sb.Rejected:
		var ds []string
		for _, d := range res.Resp.Runs[0].Diags {
			if d.Severity == "FAIL" {
				ds = append(ds, fmt.Sprintf("%d:%d %s", d.Line, d.Col, d.Msg))
			}
		}
		return run, false, fmt.Errorf("GENERATOR: well-typed-by-construction program rejected by the checker: %s", strings.Join(ds, " | "))
	}
	run = res.Resp.Runs[0]
	if run.Stdout != c.Stdout {
		return run, false, fmt.Errorf("output differs from the reference interpreter\n--- want\n%s--- got\n%s--- first difference: %s", Clip(c.Stdout, 1500), Clip(run.Stdout, 1500), FirstDiff(c.Stdout, run.Stdout))
	}
	if run.ErrInspect != c.Err {
		return run, false, fmt.Errorf("final outcome differs: reference uncaught error %q, VM %q (class %s)", c.Err, run.ErrInspect, run.ErrClass)
	}
	for k := range c.Events {
		ctx.Label("ev:" + k)
	}
	return run, true, nil
}

// FailClass buckets an oracle error so that reduction keeps the same kind of failure.
func FailClass(err error) string {
	if err == nil {
		return ""
	}
	m := err.Error()
	for _, k := range []string{"interpreter crashed", "GENERATOR", "output differs", "final outcome differs", "stack limit"} {
		if strings.Contains(m, k) {
			return k
		}
	}
	return "other"
}

// Minimize reduces the program by statement deletion while the oracle keeps
// failing in the same class.
func Minimize(c Case, oracle func(Case, *pbt.Ctx) error) Case {
	if c.Prog == nil {
		return c
	}
	want := FailClass(oracle(c, &pbt.Ctx{}))
	if want == "" || want == "GENERATOR" {
		return c
	}
	red := mini.Reduce(c.Prog, func(p *mini.Program) bool {
		defer func() { _ = recover() }() // reduced programs may be ill-formed for the reference interpreter
		return FailClass(oracle(Make(p), &pbt.Ctx{})) == want
	}, 1500)
	return Make(red)
}

func FirstDiff(a, b string) string {
	la, lb := strings.Split(a, "\n"), strings.Split(b, "\n")
	for i := 0; i < len(la) || i < len(lb); i++ {
		x, y := "<end>", "<end>"
		if i < len(la) {
			x = la[i]
		}
		if i < len(lb) {
			y = lb[i]
		}
		if x != y {
			return fmt.Sprintf("line %d: want %q got %q", i+1, x, y)
		}
	}
	return "none"
}

func Clip(s string, n int) string {
	if len(s) > n {
		return s[:n] + "…"
	}
	return s
}

// Sample renders a case for the evidence file.
func Sample(c Case) any {
	return map[string]any{"src": c.Src, "stdout": c.Stdout, "err": c.Err}
}
