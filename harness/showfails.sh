#!/bin/bash
# developer helper: print replay files with base64 src decoded
python3 - "$@" <<'PY'
import json,sys,base64,glob
for f in sorted(glob.glob('/tmp/fails/*.json')) if len(sys.argv)<2 else sys.argv[1:]:
    d=json.load(open(f)); c=d['case']
    if isinstance(c,dict) and isinstance(c.get('src'),str):
        try: c['src']=base64.b64decode(c['src']).decode('utf-8','backslashreplace')
        except Exception: pass
    print(f, d['test']); print(json.dumps(c,ensure_ascii=False)[:1500]); print('  =>',d.get('observed','')[:600])
PY
